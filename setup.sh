#!/bin/bash
# Offline setup: parse all specs once and warm the Go build cache for the harness.
set -e
cd "$(dirname "$0")"
export GOFLAGS=-mod=mod GOPROXY=off GOSUMDB=off GOTOOLCHAIN=local
W=$(mktemp -d /tmp/vsetup.XXXXXX); trap 'rm -rf "$W"' EXIT
cp spec/*.tla "$W"/
for f in spec/*.tla; do (cd "$W" && timeout 120 tla-sany "$(basename $f)" >/dev/null 2>&1) || { echo "SANY failed on $f"; exit 1; }; done
cp /repo/go.sum harness/go.sum
(cd harness && go1.26.8 vet -structtag=false -tags verif ./... && go1.26.8 test -tags verif -count=1 -run '^$' ./... >/dev/null)
echo setup ok
