#!/usr/bin/env python3
"""Vacuity audit: run every exhaustive configuration with `-coverage 1` and print, per implementation
spec, the action x configuration matrix of states generated (taken steps).  An action never taken
in any configuration of its spec is reported (exit 1): whatever is claimed about it was never exercised.
usage: tools/coverage_audit.py [family ...]   families: server client loop bridge chan httpchan
"""
import os, re, subprocess, sys, collections
V = os.path.dirname(os.path.dirname(os.path.abspath(__file__)))
FAM = {
 'server': ('MCServer', ['srv_c01', 'srv_c03q', 'srv_c03', 'srv_c06', 'srv_c07q', 'srv_c07', 'srv_c08q', 'srv_c08', 'srv_c08u', 'srv_c08r', 'srv_c09', 'srv_c09b', 'srv_c09r', 'srv_c09n', 'srv_c07b', 'srv_c03c1', 'srv_c06c3', 'srv_send', 'srv_send2']),
 'client': ('MCClient', ['cli_c04q', 'cli_c04', 'cli_c04s', 'cli_c05u', 'cli_c05m', 'cli_c05']),
 'loop': ('LoopImpl', ['loop', 'loop_net', 'loop_cov']),
 'bridge': ('MCBridge', ['bridge', 'bridge2', 'bridge3']),
 'chan': ('MCChan', ['chan_ok']),
 'httpchan': ('HttpChan', ['httpchan']),
}
def run(cfg, mod):
    env = dict(os.environ, TLC_WORKERS=os.environ.get('TLC_WORKERS', '8'), TLC_TIMEOUT='1800')
    p = subprocess.run([os.path.join(V, 'tools', 'tlcrun'), cfg, mod, '-coverage', '1'], capture_output=True, text=True, env=env)
    out = p.stdout
    i = out.rfind('The coverage statistics at')
    acts = {}
    for m in re.finditer(r'^<(\w+) line \d+, col \d+ to line \d+, col \d+ of module (\w+)>: (\d+):(\d+)', out[i:], re.M):
        acts[m.group(1)] = (int(m.group(3)), int(m.group(4)))
    m = re.search(r'(\d+) states generated, (\d+) distinct states found', out)
    return acts, (m.groups() if m else ('?', '?')), p.returncode
bad = 0
for fam in (sys.argv[1:] or list(FAM)):
    mod, cfgs = FAM[fam]
    table = collections.OrderedDict(); sizes = {}
    for c in cfgs:
        acts, size, rc = run(c, mod)
        sizes[c] = size
        if rc != 0 or not acts:
            print('!! %s/%s: TLC rc=%s, no coverage' % (mod, c, rc)); bad = 2; continue
        for a, (d, g) in acts.items():
            if a in ('Init',): continue
            table.setdefault(a, {})[c] = g
    print('== %s (%s)' % (fam, mod))
    print('%-18s' % 'action' + ''.join('%10s' % c.replace('srv_', '').replace('cli_', '') for c in cfgs))
    for a, row in table.items():
        print('%-18s' % a + ''.join('%10s' % row.get(c, '-') for c in cfgs))
        if not any(row.get(c, 0) for c in cfgs):
            print('   ^^ never taken in any configuration'); bad = bad or 1
    print('%-18s' % 'distinct states' + ''.join('%10s' % sizes[c][1] for c in cfgs))
sys.exit(bad)
