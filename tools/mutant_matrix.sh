#!/bin/bash
# Runs the intended check (quick) of every seeded change against a scratch copy of /repo with the change applied
# (tools/try_mutant.sh: /repo itself is not touched); prints one line each.  MATRIX_JOBS of them at a time (default 3).
cd "$(dirname "$0")/.."
ls seeded | while read name; do
  prop=$(python3 -c "import json;print(json.load(open('seeded/$name/meta.json'))['property'])")
  echo "$name $prop"
done | xargs -P ${MATRIX_JOBS:-3} -L 1 bash -c 'tools/try_mutant.sh $0 $1 quick 2>&1 | head -1'
echo "== done"
