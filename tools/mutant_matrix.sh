#!/bin/bash
# Applies every seeded change to /repo in turn, runs the intended check (quick), reverts; prints one line each.
cd "$(dirname "$0")/.."
for d in seeded/*/; do
  name=$(basename $d); prop=$(python3 -c "import json;print(json.load(open('$d/meta.json'))['property'])")
  tools/try_mutant.sh $name $prop quick 2>&1 | head -1
done
