#!/bin/bash
# usage: confirm_mutant.sh <name> <worktree> <property>
# Confirms a seeded change: builds, existing suite passes with it, demo fails with it and passes without it.
# On success stores patch.diff, the demo and meta.json under /verif/seeded/<name>/.
set -u
name=$1; wt=$2; prop=$3
export GOFLAGS=-mod=mod GOPROXY=off GOSUMDB=off GOTOOLCHAIN=local
cd "$wt" || exit 2
demo=$(git status --porcelain | awk '$1=="??" && $2 ~ /_test\.go$/ {print $2}' | head -1)
[ -n "$demo" ] || { echo "no demo test file"; exit 2; }
pkg=./$(dirname "$demo")
tests=$(grep -ho '^func Test[A-Za-z0-9_]*' "$demo" | sed 's/func //' | paste -sd'|')
git diff -- . ':(exclude)*_test.go' > /tmp/confirm_$name.diff
[ -s /tmp/confirm_$name.diff ] || { echo "empty patch"; exit 2; }
echo "== build+suite with change (demo skipped)"
go build ./... && go build -tags verif ./... || { echo BUILD-FAIL; exit 1; }
suite_ok=1
for i in 1 2 3; do go test -count=1 -skip "$tests" ./... >/tmp/confirm_suite.txt 2>&1 || { suite_ok=0; tail -20 /tmp/confirm_suite.txt; }; done
echo "suite_ok=$suite_ok"
echo "== demo with change (expect FAIL)"
go test -count=1 -run "$tests" $pkg >/tmp/confirm_demo_with.txt 2>&1; with=$?
tail -5 /tmp/confirm_demo_with.txt
echo "== demo without change (expect PASS)"
git apply -R /tmp/confirm_$name.diff   # (not git stash: refs/stash is shared by all worktrees of the repository)
go test -count=1 -run "$tests" $pkg >/tmp/confirm_demo_without.txt 2>&1; without=$?
tail -3 /tmp/confirm_demo_without.txt
git apply /tmp/confirm_$name.diff
echo "with=$with without=$without"
if [ $suite_ok = 1 ] && [ $with != 0 ] && [ $without = 0 ]; then
  d=/verif/seeded/$name; mkdir -p $d
  cp /tmp/confirm_$name.diff $d/patch.diff; cp "$demo" $d/$(basename "$demo")
  [ -f MUTANT_README.md ] && cp MUTANT_README.md $d/README.md
  python3 - "$d" "$name" "$prop" "$demo" "$tests" <<'PY'
import json,sys
d,name,prop,demo,tests=sys.argv[1:6]
json.dump({"name":name,"property":prop,"demo_file":demo,"demo_tests":tests.split('|'),
 "confirmed":{"builds":True,"existing_suite_passes_with_change":True,"demo_fails_with_change":True,"demo_passes_without_change":True},
 "ran":["go build ./... && go build -tags verif ./...","go test -count=1 -skip <demo> ./... (3x)","go test -run <demo> (with change: fail)","git stash; go test -run <demo> (without: pass)"],
 "needs":"see README.md","detected_by":[]},open(d+"/meta.json","w"),indent=1)
PY
  echo "CONFIRMED -> $d"
else echo "NOT CONFIRMED"; exit 1; fi
