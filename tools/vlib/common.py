"""Shared helpers for the check drivers: running TLC, the Go harness, trace validation, evidence."""
import json, os, re, shutil, subprocess, sys, tempfile, time, glob, random, hashlib

VERIF = os.path.dirname(os.path.dirname(os.path.dirname(os.path.abspath(__file__))))
SPEC = os.path.join(VERIF, 'spec')
HARNESS = os.path.join(VERIF, 'harness')
# The library under test.  Always /repo for the registered checks; tools/try_mutant.sh points VERIF_REPO at a
# scratch copy with a seeded change applied (and VERIF_EVIDENCE_DIR elsewhere) so that trials never touch /repo.
REPO = os.environ.get('VERIF_REPO', '/repo')
EVIDENCE = os.environ.get('VERIF_EVIDENCE_DIR', os.path.join(VERIF, 'evidence'))
GOENV = dict(os.environ, GOFLAGS='-mod=mod', GOPROXY='off', GOSUMDB='off', GOTOOLCHAIN='local',
             CGO_ENABLED='0')
GO = 'go1.26.8'
NCPU = min(16, os.cpu_count() or 4)

class ToolError(Exception):
    pass

def scratch(prefix='vp'):
    return tempfile.mkdtemp(prefix=prefix + '.', dir=os.environ.get('VERIF_TMP', '/tmp'))

def copy_specs(dst):
    for f in glob.glob(os.path.join(SPEC, '*.tla')):
        shutil.copy(f, dst)

def run_tlc(workdir, module, cfgtext, args=(), workers=None, timeout=600, env=None, cfgname='run.cfg'):
    """Run TLC in workdir (specs are copied there). Returns (returncode, output)."""
    copy_specs(workdir)
    with open(os.path.join(workdir, cfgname), 'w') as f:
        f.write(cfgtext)
    cmd = ['timeout', str(timeout), 'tlc', '-workers', str(workers or NCPU), '-metadir', os.path.join(workdir, 'md_' + cfgname),
           '-config', cfgname] + list(args) + [module + '.tla']
    e = dict(os.environ)
    if env: e.update(env)
    p = subprocess.run(cmd, cwd=workdir, stdout=subprocess.PIPE, stderr=subprocess.STDOUT, text=True, env=e)
    return p.returncode, p.stdout

def tlc_stats(out):
    """Extract (generated, distinct, depth) from TLC output."""
    m = re.search(r'(\d[\d,]*) states generated, (\d[\d,]*) distinct states found', out)
    d = re.search(r'depth of the complete state graph search is (\d+)', out)
    if not m:
        return None
    return int(m.group(1).replace(',', '')), int(m.group(2).replace(',', '')), int(d.group(1)) if d else 0

def read_cfg(name):
    return open(os.path.join(SPEC, 'cfg', name + '.cfg')).read()

def model_check(cfgname, module, timeout=900, workers=None, extra_cfg=''):
    """Exhaustive TLC run of a design-level configuration; returns dict(states, transitions, depth, ok, out)."""
    w = scratch('tlcmc')
    try:
        rc, out = run_tlc(w, module, read_cfg(cfgname) + extra_cfg, timeout=timeout, workers=workers)
        st = tlc_stats(out)
        ok = ('Model checking completed. No error has been found.' in out)
        if not st or not ok:
            raise ToolError('TLC model checking of %s failed (rc=%s):\n%s' % (cfgname, rc, out[-3000:]))
        return dict(cfg=cfgname, transitions=st[0], states=st[1], depth=st[2], ok=ok)
    finally:
        shutil.rmtree(w, ignore_errors=True)

def simulate(cfgname, module, num, depth, seed, timeout=300, extra_cfg=''):
    """tlc -simulate: returns list of behaviours, each a list of (action, args)."""
    from . import tlaval
    w = scratch('tlcsim')
    try:
        rc, out = run_tlc(w, module, read_cfg(cfgname).replace('VIEW View', '') + extra_cfg,
                          args=['-simulate', 'file=%s/beh,num=%d' % (w, num), '-depth', str(depth), '-seed', str(seed)],
                          workers=1, timeout=timeout)
        files = sorted(glob.glob(os.path.join(w, 'beh_*')), key=lambda p: [int(x) for x in re.findall(r'\d+', os.path.basename(p))])
        if not files:
            raise ToolError('TLC simulation of %s produced no behaviours (rc=%s):\n%s' % (cfgname, rc, out[-3000:]))
        return [tlaval.behaviour_actions(f) for f in files]
    finally:
        shutil.rmtree(w, ignore_errors=True)

_built = {}
def build_harness(pkg, outdir):
    """Build the test binary of a harness package against /repo's current working tree (tag verif)."""
    key = (pkg, outdir)
    if key in _built:
        return _built[key]
    binp = os.path.join(outdir, pkg.replace('/', '_') + '.test')
    hdir = HARNESS
    if REPO != '/repo':      # a private copy of the harness module whose replace directive names the scratch library
        hdir = os.path.join(outdir, 'harness_src')
        if not os.path.isdir(hdir):
            shutil.copytree(HARNESS, hdir)
            gm = open(os.path.join(hdir, 'go.mod')).read().replace('=> /repo', '=> ' + REPO)
            open(os.path.join(hdir, 'go.mod'), 'w').write(gm)
    race = ['-race'] if os.environ.get('VERIF_RACE') else []      # development aid: data races in the HARNESS itself
    p = subprocess.run([GO, 'test', '-tags', 'verif'] + race + ['-c', '-o', binp, './' + pkg], cwd=hdir, env=dict(GOENV, CGO_ENABLED='1') if race else GOENV,
                       stdout=subprocess.PIPE, stderr=subprocess.STDOUT, text=True)
    if p.returncode != 0 or not os.path.exists(binp):
        raise ToolError('building harness package %s against /repo failed:\n%s' % (pkg, p.stdout[-4000:]))
    _built[key] = binp
    return binp

def run_scenarios(binp, scenarios, workdir, nworkers=None, per_timeout=120, test='TestRun', extra_env=None):
    """Run scenarios (list of dicts) through the harness binary in parallel worker processes.
    A worker that dies in scenario i yields a Crash/Deadlock event for it and is restarted after i.
    Returns (list of traces [each a list of events incl. Reset], info)."""
    nworkers = nworkers or NCPU
    shards = [scenarios[i::nworkers] for i in range(nworkers)]
    procs = []
    for k, sh in enumerate(shards):
        if not sh: continue
        sp = os.path.join(workdir, 'scn_%d.ndjson' % k)
        with open(sp, 'w') as f:
            for s in sh: f.write(json.dumps(s) + '\n')
        procs.append(dict(k=k, sh=sh, sp=sp, out=os.path.join(workdir, 'out_%d.ndjson' % k),
                          prog=os.path.join(workdir, 'prog_%d' % k), frm=0, p=None, crashes=[]))
    def start(pr):
        env = dict(os.environ, VERIF_SCENARIOS=pr['sp'], VERIF_OUT=pr['out'], VERIF_PROGRESS=pr['prog'], VERIF_FROM=str(pr['frm']))
        if extra_env: env.update(extra_env)
        pr['log'] = open(os.path.join(workdir, 'log_%d_%d.txt' % (pr['k'], pr['frm'])), 'w')
        pr['p'] = subprocess.Popen(['timeout', str(per_timeout * max(1, len(pr['sh']) - pr['frm']) // 4 + 60), binp, '-test.run', '^' + test + '$', '-test.timeout', '0'],
                                   cwd=workdir, env=env, stdout=pr['log'], stderr=subprocess.STDOUT)
    for pr in procs: start(pr)
    crashes, tool_trouble = [], []
    active = list(procs)
    while active:
        for pr in list(active):
            rc = pr['p'].wait()
            pr['log'].close()
            try: prog = open(pr['prog']).read().split()
            except FileNotFoundError: prog = []
            if prog and prog[0] == 'done':
                active.remove(pr); continue
            if not prog:
                tool_trouble.append('worker %d exited rc=%s without progress: %s' % (pr['k'], rc, open(pr['log'].name).read()[-2000:]))
                active.remove(pr); continue
            i = int(prog[0])
            if len(prog) >= 3 and prog[2] == 'LEAKDONE':
                pass  # trace (with Leak event) already written; restart after i
            elif rc == 124:
                tool_trouble.append('worker %d timed out in scenario %s' % (pr['k'], prog[1]))
                active.remove(pr); continue
            else:
                logtxt = open(pr['log'].name).read()
                kind = 'Deadlock' if 'deadlock: main bubble goroutine has exited but blocked goroutines remain' in logtxt or 'all goroutines in bubble are blocked' in logtxt else 'Crash'
                m = re.search(r'(panic: .*|fatal error: .*)', logtxt)
                what = (m.group(1) if m else logtxt[-300:])[:300]
                crashes.append(dict(scenario=pr['sh'][i], kind=kind, what=what, log=logtxt[-6000:]))
                with open(pr['out'], 'a') as f:
                    hdr = dict(ev='Reset', scn=pr['sh'][i]['name'], idx=i, conc=pr['sh'][i].get('opts', {}).get('conc', 1),
                               push=pr['sh'][i].get('opts', {}).get('push', False), builtin=True, crashed=True)
                    f.write(json.dumps(hdr) + '\n')
                    f.write(json.dumps(dict(ev=kind, what=what)) + '\n')
            pr['frm'] = i + 1
            if pr['frm'] >= len(pr['sh']):
                active.remove(pr); continue
            start(pr)
    traces = []
    for pr in procs:
        cur = None
        if not os.path.exists(pr['out']): continue
        for line in open(pr['out']):
            e = json.loads(line)
            if e['ev'] == 'Reset':
                cur = [e]; traces.append(cur)
            else:
                cur.append(e)
    return traces, dict(crashes=crashes, tool_trouble=tool_trouble)

def validate_traces(traces, module, enforce, cfg_tmpl, workdir, keep_events=None, shard_events=25000, timeout=600):
    """TLC-validate traces (lists of events) against a contract module with the given Enforce set.
    Returns (n_accepted, rejections) where rejections = list of dict(trace, at, event, msg).
    After a rejection the offending trace is cut out and the remainder is re-validated."""
    def prep(tr):
        if keep_events is None: return tr
        return [e for e in tr if e['ev'] in keep_events]
    pending = [prep(t) for t in traces]
    # shard
    shards, cur, n = [], [], 0
    for t in pending:
        if n + len(t) > shard_events and cur:
            shards.append(cur); cur, n = [], 0
        cur.append(t); n += len(t)
    if cur: shards.append(cur)
    rejections, accepted = [], 0
    enf = ', '.join('"%s"' % e for e in sorted(enforce))
    cfgtext = cfg_tmpl.replace('ENFORCE', enf)
    from concurrent.futures import ThreadPoolExecutor
    def one(idx_shard):
        idx, shard = idx_shard
        acc, rej = 0, []
        rounds = 0
        while shard and rounds < 8:
            rounds += 1
            w = os.path.join(workdir, 'val_%s_%d_%d' % (module, idx, rounds))
            os.makedirs(w, exist_ok=True)
            tp = os.path.join(w, 'trace.ndjson')
            starts = []
            with open(tp, 'w') as f:
                ln = 0
                for t in shard:
                    starts.append(ln + 1)
                    for e in t:
                        f.write(json.dumps(e) + '\n'); ln += 1
            rc, out = run_tlc(w, module, cfgtext, workers=1, timeout=int(os.environ.get('VERIF_VAL_TIMEOUT', timeout)), env={'TRACE': tp})
            if 'REJECTED_AT' not in out:
                if 'Model checking completed' in out and rc == 0:
                    acc += len(shard); shutil.rmtree(w, ignore_errors=True); break
                raise ToolError('trace validation against %s failed to run (rc=%s):\n%s' % (module, rc, out[-4000:]))
            m = re.search(r'"REJECTED_AT", (\d+)', out)
            at = int(m.group(1))
            # find the trace containing line `at`
            ti = max(i for i, s in enumerate(starts) if s <= at)
            bad = shard[ti]
            rej.append(dict(trace=bad, at=at - starts[ti], event=bad[min(at - starts[ti], len(bad) - 1)]))
            acc += ti  # traces before the bad one were consumed
            shard = shard[ti + 1:]
            shutil.rmtree(w, ignore_errors=True)
        return acc, rej
    with ThreadPoolExecutor(max_workers=NCPU) as ex:
        for acc, rej in ex.map(one, list(enumerate(shards))):
            accepted += acc; rejections += rej
    return accepted, rejections

def write_evidence(prop, tier, seed, level, coverage, wall, violations, assumptions=()):
    os.makedirs(EVIDENCE, exist_ok=True)
    ev = dict(property_id=prop, tier=tier, seed=int(seed), level=level, coverage=coverage,
              assumptions=list(assumptions), wall_s=round(wall, 2), violations=int(violations))
    with open(os.path.join(EVIDENCE, prop + '.json'), 'w') as f:
        json.dump(ev, f, indent=1, sort_keys=True)

def known_findings():
    p = os.path.join(VERIF, 'known_findings.json')
    if not os.path.exists(p): return []
    return json.load(open(p)).get('findings', [])

def save_replay(prop, name, obj):
    d = os.path.join(VERIF, 'replays')
    os.makedirs(d, exist_ok=True)
    p = os.path.join(d, '%s_%s.json' % (prop, re.sub(r'[^A-Za-z0-9_.-]', '_', name)))
    with open(p, 'w') as f:
        json.dump(obj, f, indent=1)
    return p

def simulate_states(cfgname, module, num, depth, seed, timeout=300):
    """tlc -simulate returning behaviours as lists of (action, args, state)."""
    from . import tlaval
    w = scratch('tlcsim')
    try:
        rc, out = run_tlc(w, module, read_cfg(cfgname).replace('VIEW View', ''), args=['-simulate', 'file=%s/beh,num=%d' % (w, num), '-depth', str(depth), '-seed', str(seed)],
                          workers=1, timeout=timeout)
        files = sorted(glob.glob(os.path.join(w, 'beh_*')), key=lambda p: [int(x) for x in re.findall(r'\d+', os.path.basename(p))])
        if not files:
            raise ToolError('TLC simulation of %s produced no behaviours (rc=%s):\n%s' % (cfgname, rc, out[-3000:]))
        return [tlaval.behaviour_with_states(f) for f in files]
    finally:
        shutil.rmtree(w, ignore_errors=True)


def confirm_rejections(prop, rej, scenario_of, run_one, module, tmpl, work, keep_events=None, extra=None, max_report=4, attempts=3):
    """Every rejected scenario is re-executed alone (up to `attempts` times) and re-judged; only a reproduced
    rejection becomes a violation.  If something was rejected but nothing reproduces the check is inconclusive."""
    violations, anomalies = [], []
    for r in rej[:max_report + 4]:
        if len(violations) >= max_report: break
        name = r['trace'][0]['scn']; sc = scenario_of(name)
        ok = False
        for k in range(attempts):
            w2 = os.path.join(work, 're_%s_%d' % (re.sub(r'\W', '_', name), k)); os.makedirs(w2, exist_ok=True)
            tr2 = run_one(sc, w2)
            _, rej2 = validate_traces(tr2, module, {prop}, tmpl, w2, keep_events=keep_events)
            if rej2:
                d = dict(property=prop, scenario=sc, rejected_at=rej2[0]['at'], event=rej2[0]['event'], trace=rej2[0]['trace'])
                if extra: d.update(extra(name))
                violations.append((name, save_replay(prop, name, d), rej2[0])); ok = True
                break
        if not ok: anomalies.append(name)
    if rej and not violations:
        raise ToolError('rejected scenarios did not reproduce in %d attempts: %s' % (attempts, ', '.join(anomalies)))
    return violations, anomalies
