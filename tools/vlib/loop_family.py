"""C20: server.Loop.  LoopImpl -> scenarios -> real Loop with harness accepter/services -> LoopContract."""
import json, os, random, re, shutil, time
from . import common as C
from .client_family import TMPL

def convert(beh, rng, name, opts):
    steps = []
    for item in beh:
        act, a = item[0], item[1]
        if act == 'Init': continue
        if act == 'Accept': steps.append(dict(a='accept'))
        elif act == 'AcceptFail': steps.append(dict(a='acceptfail', kind=a[0]))
        elif act == 'CtxCancel': steps.append(dict(a='ctxcancel'))
        elif act == 'NewSvc': steps.append(dict(a='newsvc', c=a[0]))
        elif act == 'Assign': steps.append(dict(a='assign', c=a[0], ok=a[1]))
        elif act == 'ClientCall': steps.append(dict(a='call', c=a[0]))
        elif act == 'HandlerRet': steps.append(dict(a='hret', c=a[0]))
        elif act == 'ClientClose': steps.append(dict(a='clientclose', c=a[0]))
        elif act == 'ConnError': steps.append(dict(a='connerr', c=a[0]))
        elif act == 'WatcherStop': steps.append(dict(a='watcherstop', c=a[0]))
        elif act in ('ServerExit', 'LoopReturn'): pass      # happen by themselves
        else: raise C.ToolError('unknown LoopImpl action ' + act)
        if rng.random() < 0.15: steps.append(dict(a='drain'))
    # in the model a listener may fail right behind a connection it handed out (Accept, AcceptFail with nothing between
    # them: the connection's goroutine has not run yet); the harness pauses after every step, so the pair is fused - for
    # half of the behaviours that have it, and only where the harness's own accepter is used
    if not opts.get('cancelCloses') and rng.random() < 0.5:
        k = 0
        while k + 1 < len(steps):
            if steps[k] == dict(a='accept') and steps[k + 1].get('a') == 'acceptfail':
                steps[k] = dict(a='accept', kind='thenclosing' if steps[k + 1]['kind'] == 'closing' else 'thenfail')
                del steps[k + 1]
            k += 1
    return dict(name=name, seed=rng.randrange(1 << 30), opts=opts, steps=steps)

D = dict(a='drain')
def directed(rng):
    out = []
    def add(name, cc, steps):
        out.append(dict(name='dir-' + name, seed=rng.randrange(1 << 30), opts=dict(cancelCloses=cc), steps=steps))
    A = dict(a='accept')
    def ns(c): return dict(a='newsvc', c=c)
    def asg(c, ok=True): return dict(a='assign', c=c, ok=ok)
    for cc in (False, True):
        add('assignfail-%s' % cc, cc, [A, ns(1), asg(1, False), D, A, ns(2), asg(2), D, dict(a='call', c=2), D, dict(a='hret', c=2), dict(a='clientclose', c=2), D, dict(a='acceptfail', kind='closing'), D])
        add('err-while-running-%s' % cc, cc, [A, ns(1), asg(1), D, dict(a='call', c=1), D, dict(a='acceptfail', kind='other'), D, dict(a='hret', c=1), D, dict(a='clientclose', c=1), D])
        add('closing-while-running-%s' % cc, cc, [A, A, ns(1), ns(2), asg(1), asg(2), D, dict(a='call', c=1), dict(a='acceptfail', kind='closing'), D, dict(a='clientclose', c=2), D, dict(a='hret', c=1), dict(a='clientclose', c=1), D])
        add('cancel-%s' % cc, cc, [A, A, ns(1), asg(1), ns(2), asg(2), D, dict(a='call', c=1), dict(a='call', c=2), D, dict(a='ctxcancel'), D, dict(a='hret', c=1), D, dict(a='hret', c=2), D, dict(a='acceptfail', kind='other'), D])
        add('cancel-before-start-%s' % cc, cc, [A, ns(1), dict(a='ctxcancel'), asg(1), D, dict(a='acceptfail', kind='closing'), D])
        add('connerr-%s' % cc, cc, [A, A, ns(1), ns(2), asg(1), asg(2), D, dict(a='call', c=1), D, dict(a='connerr', c=1), D, dict(a='hret', c=1), D, dict(a='connerr', c=2), D,
                                    dict(a='acceptfail', kind='closing'), D])
        # the context ends at moments when Loop is not waiting in Accept: before it starts, and between two calls of Accept
        add('cancel-at-once-%s' % cc, cc, [dict(a='ctxcancel'), D] + ([A, D, ns(1), asg(1), D, dict(a='clientclose', c=1), D, dict(a='acceptfail', kind='closing'), D] if not cc else []))
        add('cancel-between-accepts-%s' % cc, cc, [A, ns(1), asg(1), D, dict(a='accept', kind='cancelafter'), D, ns(2), asg(2), D, dict(a='clientclose', c=1), dict(a='clientclose', c=2), D,
                                                   dict(a='acceptfail', kind='closing'), D])
        if not cc:
            # the listener fails right behind a connection it has just handed out: that connection is served and finished all the same
            add('fail-behind-accept-%s' % cc, cc, [dict(a='accept', kind='thenfail'), D, ns(1), asg(1), D, dict(a='call', c=1), D, dict(a='hret', c=1), dict(a='clientclose', c=1), D])
            add('closing-behind-accept-%s' % cc, cc, [A, ns(1), asg(1), D, dict(a='accept', kind='thenclosing'), D, ns(2), asg(2), D, dict(a='clientclose', c=2), dict(a='clientclose', c=1), D])
        add('three-%s' % cc, cc, [A, A, A, ns(1), ns(2), ns(3), asg(2, False), asg(1), asg(3), D, dict(a='clientclose', c=3), dict(a='call', c=1), D, dict(a='acceptfail', kind='other'), dict(a='hret', c=1), dict(a='clientclose', c=1), D])
    return out

def chan_part(prop, tier, seed, work, replay_scenario=None):
    """C10 as far as server.Loop is concerned: the connections it hands to its servers (and the ones it keeps, when the
    Assigner fails) are closed exactly once.  LoopContract's ChClose carries that guard under the tag C10.  Returns
    (violations, info)."""
    rng = random.Random(seed * 7919 + 21)
    binp = C.build_harness('loopfam', work)
    if replay_scenario is not None:
        scs = [replay_scenario]
    else:
        scs = []
        for ci, (cfg, cc) in enumerate((('loop', False), ('loop_net', True))):
            for bi, beh in enumerate(C.simulate(cfg, 'LoopImpl', 40 if tier == 'quick' else 600, 30, seed * 31 + ci + 7)):
                scs.append(convert(beh, rng, 'C10-%s-%d' % (cfg, bi), dict(cancelCloses=cc)))
        for k in range(2 if tier == 'quick' else 6):
            for d in directed(rng):
                d = dict(d); d['name'] = 'C10-' + d['name'] + '-s%d' % k; d['seed'] = rng.randrange(1 << 30); scs.append(d)
    w = os.path.join(work, 'l'); os.makedirs(w, exist_ok=True)
    traces, info = C.run_scenarios(binp, scs, w)
    if info['tool_trouble']:
        raise C.ToolError('; '.join(info['tool_trouble']))
    accepted, rej = C.validate_traces(traces, 'LoopContract', {prop}, TMPL, w)
    byname = {s['name']: s for s in scs}
    violations, anomalies = C.confirm_rejections(prop, rej, lambda n: byname[n], lambda sc, ww: C.run_scenarios(binp, [sc], ww, nworkers=1)[0], 'LoopContract', TMPL, w,
                                                 extra=lambda name: dict(family='loop'))
    return violations, dict(loop_scenarios=len(scs), loop_traces_validated=accepted + len(rej),
                            loop_close_events=sum(1 for t in traces for e in t if e['ev'] == 'ChClose'))


def run_check(prop, tier, seed, replay=None):
    t0 = time.time()
    work = C.scratch('loop_' + prop)
    try:
        design = []
        if replay is None:
            for cfg in (['loop_net', 'loop'] if tier == 'quick' else ['loop_net', 'loop']):
                design.append(C.model_check(cfg, 'LoopImpl', timeout=900))
            w = C.scratch('tlcbad')
            try:
                rc, out = C.run_tlc(w, 'LoopImpl', C.read_cfg('loop_f10'), timeout=300)
                if 'Invariant FailedConnClosed is violated' not in out:
                    raise C.ToolError('LoopImpl sensitivity run (F10 switch off) did not find the expected violation')
            finally:
                shutil.rmtree(w, ignore_errors=True)
        rng = random.Random(seed * 7919 + 20)
        binp = C.build_harness('loopfam', work)
        if replay:
            scs = [json.load(open(replay))['scenario']]
        else:
            scs = []
            n = 150 if tier == 'quick' else 2500
            for ci, (cfg, cc) in enumerate((('loop', False), ('loop_net', True))):
                for bi, beh in enumerate(C.simulate(cfg, 'LoopImpl', n, 30, seed * 31 + ci)):
                    scs.append(convert(beh, rng, 'C20-%s-%d' % (cfg, bi), dict(cancelCloses=cc)))
            cov_info = {}
            if tier == 'thorough':     # a transition cover of the exhaustively explored graphs as well
                from . import cover
                # full covers of the two-connection graph and of the NetAccepter graph; of the three-connection graph
                # (816 033 transitions, 215 565 paths: 13 minutes) a seeded sample of 15 000 paths
                for cfg, cc, lim in (('loop_cov', False, None), ('loop_net', True, None), ('loop', False, 15000)):
                    behs, ne, ns = cover.behaviours(cfg, 'LoopImpl', rng=rng, limit=lim)
                    scs += [convert(b, rng, 'C20-cover-%s-%d' % (cfg, i), dict(cancelCloses=cc)) for i, b in enumerate(behs)]
                    cov_info['cover_' + cfg] = dict(edges=ne, states=ns, paths=len(behs))
            for k in range(2 if tier == 'quick' else 6):
                for d in directed(rng):
                    d = dict(d); d['name'] += '-s%d' % k; d['seed'] = rng.randrange(1 << 30); scs.append(d)
        traces, info = C.run_scenarios(binp, scs, work)
        if info['tool_trouble']:
            raise C.ToolError('; '.join(info['tool_trouble']))
        accepted, rej = C.validate_traces(traces, 'LoopContract', {prop}, TMPL, work)
        byname = {s['name']: s for s in scs}
        violations, anomalies = C.confirm_rejections(prop, rej, lambda n: byname[n], lambda sc, w: C.run_scenarios(binp, [sc], w, nworkers=1)[0], 'LoopContract', TMPL, work)
        sig = lambda t: ' '.join(e['ev'] for e in t if e['ev'] not in ('SB', 'SE', 'RB', 'RE', 'CB', 'CE', 'Quiescent', 'Send', 'Recv'))
        cov = dict(states=sum(d['states'] for d in design) or 1, transitions=sum(d['transitions'] for d in design) or 1, design_runs=design,
                   traces_validated_against_impl=accepted + len(rej), scenarios=len(scs), evaluations=len(traces), distinct_nontrivial=len({sig(t) for t in traces}),
                   rule='scenarios = LoopImpl behaviours from tlc -simulate (accepter, newService, Assigner, client traffic, client close, context cancel, stop watcher, accepter failure) replayed into the real server.Loop '
                        'with harness accepter/services/connections + directed histories; distinct = distinct sequences of observable event kinds',
                   steering_divergences=sum(t[0].get('st_diverged', 0) for t in traces), crashes=len(info['crashes']),
                   samples=[dict(scenario=scs[0]['name'], steps=scs[0]['steps'][:14], events=[e['ev'] for e in traces[0] if e['ev'] not in ('SB','SE','RB','RE','CB','CE')][:40])], exhaustive=False)
        if replay is None: cov.update(cov_info)
        C.write_evidence(prop, tier, seed, 'model_checking', cov, time.time() - t0, len(violations),
                         assumptions=['handlers return when released; clients eventually close', 'trusted: harness accepter/service objects, recorder, TLC'])
        for name, path, r in violations:
            print('VIOLATION property=%s replay=%s' % (prop, path))
            print('  scenario %s rejected at event %d: %s' % (name, r['at'], json.dumps(r['event'])[:300]))
        return 1 if violations else 0
    finally:
        shutil.rmtree(work, ignore_errors=True)
