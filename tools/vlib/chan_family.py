"""C10: channel discipline.  Workloads of the server and client families with in-operation overlap probes,
judged by the ChanDiscipline monitor; design level: ChanLock (lock-based sender/closer model)."""
import json, os, random, re, shutil, time, zlib
from . import common as C
from . import server_family as SF, client_family as CF

TMPL = CF.TMPL
KEEP = {'Reset', 'SB', 'SE', 'RB', 'RE', 'CB', 'CE', 'Send', 'Final', 'Crash', 'Deadlock', 'Leak', 'BufferReused'}

add_probes = SF.add_probes

def run_check(prop, tier, seed, replay=None):
    t0 = time.time()
    work = C.scratch('chan_' + prop)
    try:
        design = []
        if replay is None:
            design.append(C.model_check('chan_ok', 'MCChan', timeout=300))
            # sensitivity of the design model: a send moved outside the lock must violate the discipline
            w = C.scratch('tlcbad')
            try:
                rc, out = C.run_tlc(w, 'MCChan', C.read_cfg('chan_bad'), timeout=300)
                if 'Invariant OneSender is violated' not in out:
                    raise C.ToolError('ChanLock sensitivity run did not find the expected violation:\n' + out[-2000:])
            finally:
                shutil.rmtree(w, ignore_errors=True)
        rng = random.Random(seed * 104729 + 10)
        nsim = 160 if tier == 'quick' else 2000
        bs = C.build_harness('srvfam', work); bc = C.build_harness('clifam', work)
        emit_replay = None; loop_replay = None
        if replay:
            rp = json.load(open(replay))
            if 'cell' in rp:      # a record of the emission table (see below): re-run that part only
                emit_replay = rp['cell']; srv, cli = [], []
            elif rp.get('family') == 'loop':
                loop_replay = rp['scenario']; srv, cli = [], []
            else:
                srv = [rp['scenario']] if rp['family'] == 'srv' else []; cli = [rp['scenario']] if rp['family'] == 'cli' else []
        else:
            srv, cli = [], []
            for p in ('C01', 'C08', 'C09', 'C07'):
                for sc in SF.gen_scenarios(p, 'quick', seed + 17, nsim // 4):
                    srv.append(add_probes(sc, rng) if rng.random() < 0.8 else sc)
            for p in ('C04', 'C05'):
                for sc in CF.gen_scenarios(p, 'quick', seed + 17, nsim // 2, probes=True):
                    cli.append(add_probes(sc, rng) if rng.random() < 0.8 else sc)
        ws = os.path.join(work, 's'); wc = os.path.join(work, 'c'); os.makedirs(ws); os.makedirs(wc)
        ts, i1 = C.run_scenarios(bs, srv, ws) if srv else ([], dict(tool_trouble=[], crashes=[]))
        tc, i2 = C.run_scenarios(bc, cli, wc) if cli else ([], dict(tool_trouble=[], crashes=[]))
        if i1['tool_trouble'] or i2['tool_trouble']:
            raise C.ToolError('; '.join(i1['tool_trouble'] + i2['tool_trouble']))
        fam = {}
        for t in ts: fam[t[0]['scn']] = 'srv'
        for t in tc: fam[t[0]['scn']] = 'cli'
        traces = ts + tc
        accepted, rej = C.validate_traces(traces, 'ChanDiscipline', {prop}, TMPL, work, keep_events=KEEP)
        byname = {s['name']: s for s in srv + cli}
        # The monitor's facts (a begin event of one operation between the begin and end events of another, logged inside
        # the channel methods under one recorder lock) are sound on the recorded trace itself; after a probe the order in
        # which mutex waiters proceed is up to the runtime, so a re-execution may take another path.  A rejection that
        # does not reproduce is therefore still reported, with the recorded trace as its replay file.
        recorded = []
        try:
            violations, anomalies = C.confirm_rejections(prop, rej, lambda n: byname[n], lambda sc, w: C.run_scenarios(bs if fam[sc['name']] == 'srv' else bc, [sc], w, nworkers=1)[0], 'ChanDiscipline', TMPL, work, keep_events=KEEP, extra=lambda name: dict(family=fam[name]))
        except C.ToolError:
            violations = []
            for r in rej[:4]:
                name = r['trace'][0]['scn']
                path = C.save_replay(prop, name + '_recorded', dict(property=prop, family=fam[name], scenario=byname[name], rejected_at=r['at'], event=r['event'], trace=r['trace'], note='recorded trace; re-execution took another path'))
                violations.append((name, path, r))
        # "whole messages" over the input classes of spec/Emit.tla (method-name character classes x value classes x emission
        # paths): every record captured on the channel must be a JSON object or a non-empty array of objects
        emit_info = {}
        if replay is None or emit_replay is not None:
            from . import table_family as TF
            et = os.path.join(work, 'emit.json')
            rc, txt = C.run_tlc(work, 'Emit', 'SPECIFICATION Spec\n', workers=1, timeout=900, env={'OUT': et}, cfgname='emit_export.cfg')
            if not os.path.exists(et) or 'Model checking completed' not in txt:
                raise C.ToolError('TLC evaluation of Emit failed (rc=%s):\n%s' % (rc, txt[-3000:]))
            be = C.build_harness('emitfam', work)
            we = os.path.join(work, 'e'); os.makedirs(we)
            re_, ce = TF.run_shards(be, 'TestEmit', we, C.NCPU, dict(VERIF_TABLE=et, VERIF_SEED=str(seed), VERIF_STRIDE='6' if tier == 'quick' and emit_replay is None else '1'), timeout=3000)
            for c in ce:
                if not TF.library_crash(c['log']):
                    raise C.ToolError('emission shard crashed outside the library: ' + c['log'][-1500:])
            emit_v = [v for r in re_ for v in (r.get('violations') or []) if v['property'] == prop and (emit_replay is None or v['cell'] == emit_replay)]
            emit_info = dict(emit_cells=sum(r.get('cells', 0) for r in re_), emit_records_judged=sum(r.get('evaluations', 0) for r in re_))
            for v in emit_v[:4]:
                path = C.save_replay(prop, 'emit_%d' % (zlib.crc32(json.dumps(v, sort_keys=True).encode()) % 10**8), dict(v, property=prop))
                violations.append(('emit ' + v['cell'][:120], path, dict(at=0, event=dict(record=v['record'][:200], why=v['why']))))
        # the connections of server.Loop: closed exactly once each, whoever ends up owning them (LoopContract, guard tagged C10)
        if replay is None or loop_replay is not None:
            from . import loop_family as LF
            lv, loop_info = LF.chan_part(prop, tier, seed, work, loop_replay)
            violations += lv
            emit_info.update(loop_info)
        probes = sum(t[0].get('st_probes', 0) for t in traces)
        sends = sum(1 for t in traces for e in t if e['ev'] == 'Send')
        cov = dict(states=sum(d['states'] for d in design) or 1, transitions=sum(d['transitions'] for d in design) or 1, design_runs=design,
                   traces_validated_against_impl=accepted + len(rej), scenarios=len(traces), evaluations=len(traces),
                   distinct_nontrivial=len({' '.join(e['ev'] + e.get('ch', '') for e in t if e['ev'] in KEEP) for t in traces}),
                   overlap_probes=probes, send_events=sends, **emit_info,
                   rule='workloads of the server and client families (TLC-simulated behaviours + directed histories) with in-operation probes: a goroutine is parked inside Send/Close '
                        'while every other goroutine and Stop/Notify/CancelRequest/Close are let loose; distinct = distinct sequences of channel events',
                   samples=[dict(scenario=traces[0][0]['scn'], channel_events=[e['ev'] for e in traces[0] if e['ev'] in KEEP][:40])] if traces else [], exhaustive=False)
        C.write_evidence(prop, tier, seed, 'model_checking', cov, time.time() - t0, len(violations),
                         assumptions=['trusted: instrumented channel wrapper logs begin/end inside the methods on the calling goroutine'])
        for name, path, r in violations:
            print('VIOLATION property=%s replay=%s' % (prop, path))
            print('  scenario %s rejected at event %d: %s' % (name, r['at'], json.dumps(r['event'])[:300]))
        return 1 if violations else 0
    finally:
        shutil.rmtree(work, ignore_errors=True)

def grammar_traces(prop, tier, seed, work):
    """Run a workload of both concurrent families and validate every Send event against ChanDiscipline with Enforce={prop}."""
    rng = random.Random(seed * 104729 + 13)
    nsim = 80 if tier == 'quick' else 800
    bs = C.build_harness('srvfam', work); bc = C.build_harness('clifam', work)
    srv, cli = [], []
    for p in ('C01', 'C09'):
        srv += SF.gen_scenarios(p, 'quick', seed + 23, nsim // 2)
    for p in ('C04',):
        cli += CF.gen_scenarios(p, 'quick', seed + 23, nsim)
    ws = os.path.join(work, 'gs'); wc = os.path.join(work, 'gc'); os.makedirs(ws); os.makedirs(wc)
    ts, i1 = C.run_scenarios(bs, srv, ws)
    tc, i2 = C.run_scenarios(bc, cli, wc)
    if i1['tool_trouble'] or i2['tool_trouble']:
        raise C.ToolError('; '.join(i1['tool_trouble'] + i2['tool_trouble']))
    traces = ts + tc
    accepted, rej = C.validate_traces(traces, 'ChanDiscipline', {prop}, TMPL, work, keep_events=KEEP - {'Crash', 'Deadlock', 'Leak'})
    viol = []
    byname = {s['name']: s for s in srv + cli}
    for r in rej[:3]:
        name = r['trace'][0]['scn']
        path = C.save_replay(prop, name, dict(property=prop, family='srv' if name in {s['name'] for s in srv} else 'cli', scenario=byname[name], event=r['event']))
        viol.append((name, path, r))
    return dict(violations=viol, traces=len(traces), sends=sum(1 for t in traces for e in t if e['ev'] == 'Send'))
