"""C10: channel discipline.  Workloads of the server and client families with in-operation overlap probes,
judged by the ChanDiscipline monitor; design level: ChanLock (lock-based sender/closer model)."""
import json, os, random, re, shutil, time, zlib
from . import common as C
from . import server_family as SF, client_family as CF

TMPL = CF.TMPL
KEEP = {'Reset', 'SB', 'SE', 'RB', 'RE', 'CB', 'CE', 'Send', 'Final', 'Crash', 'Deadlock', 'Leak'}

def add_probes(sc, rng, n=2):
    sc = dict(sc); steps = list(sc['steps'])
    firsts = [i for i, s in enumerate(steps) if s['a'] in ('send', 'op', 'peer', 'callback', 'notify')]
    if not firsts:
        return sc
    for _ in range(n):
        pos = rng.randrange(firsts[0] + 1, len(steps) + 1)
        steps.insert(pos, dict(a='probe', kind='close' if rng.random() < 0.15 else 'send'))
    sc['steps'] = steps; sc['name'] += '-p'
    return sc

def run_check(prop, tier, seed, replay=None):
    t0 = time.time()
    work = C.scratch('chan_' + prop)
    try:
        design = []
        if replay is None:
            design.append(C.model_check('chan_ok', 'MCChan', timeout=300))
            # sensitivity of the design model: a send moved outside the lock must violate the discipline
            w = C.scratch('tlcbad')
            try:
                rc, out = C.run_tlc(w, 'MCChan', C.read_cfg('chan_bad'), timeout=300)
                if 'Invariant OneSender is violated' not in out:
                    raise C.ToolError('ChanLock sensitivity run did not find the expected violation:\n' + out[-2000:])
            finally:
                shutil.rmtree(w, ignore_errors=True)
        rng = random.Random(seed * 104729 + 10)
        nsim = 160 if tier == 'quick' else 2000
        bs = C.build_harness('srvfam', work); bc = C.build_harness('clifam', work)
        if replay:
            rp = json.load(open(replay)); srv = [rp['scenario']] if rp['family'] == 'srv' else []; cli = [rp['scenario']] if rp['family'] == 'cli' else []
        else:
            srv, cli = [], []
            for p in ('C01', 'C08', 'C09', 'C07'):
                for sc in SF.gen_scenarios(p, 'quick', seed + 17, nsim // 4):
                    srv.append(add_probes(sc, rng) if rng.random() < 0.8 else sc)
            for p in ('C04', 'C05'):
                for sc in CF.gen_scenarios(p, 'quick', seed + 17, nsim // 2):
                    cli.append(add_probes(sc, rng) if rng.random() < 0.8 else sc)
        ws = os.path.join(work, 's'); wc = os.path.join(work, 'c'); os.makedirs(ws); os.makedirs(wc)
        ts, i1 = C.run_scenarios(bs, srv, ws) if srv else ([], dict(tool_trouble=[], crashes=[]))
        tc, i2 = C.run_scenarios(bc, cli, wc) if cli else ([], dict(tool_trouble=[], crashes=[]))
        if i1['tool_trouble'] or i2['tool_trouble']:
            raise C.ToolError('; '.join(i1['tool_trouble'] + i2['tool_trouble']))
        fam = {}
        for t in ts: fam[t[0]['scn']] = 'srv'
        for t in tc: fam[t[0]['scn']] = 'cli'
        traces = ts + tc
        accepted, rej = C.validate_traces(traces, 'ChanDiscipline', {prop}, TMPL, work, keep_events=KEEP)
        byname = {s['name']: s for s in srv + cli}
        violations = []
        for r in rej[:4]:
            name = r['trace'][0]['scn']; sc = byname[name]; f = fam[name]
            w2 = os.path.join(work, 're_' + re.sub(r'\W', '_', name)); os.makedirs(w2, exist_ok=True)
            tr2, _ = C.run_scenarios(bs if f == 'srv' else bc, [sc], w2, nworkers=1)
            _, rej2 = C.validate_traces(tr2, 'ChanDiscipline', {prop}, TMPL, w2, keep_events=KEEP)
            if rej2:
                path = C.save_replay(prop, name, dict(property=prop, family=f, scenario=sc, rejected_at=rej2[0]['at'], event=rej2[0]['event'], trace=rej2[0]['trace']))
                violations.append((name, path, rej2[0]))
            else:
                raise C.ToolError('rejection of %s did not reproduce' % name)
        probes = sum(t[0].get('st_probes', 0) for t in traces)
        sends = sum(1 for t in traces for e in t if e['ev'] == 'Send')
        cov = dict(states=sum(d['states'] for d in design) or 1, transitions=sum(d['transitions'] for d in design) or 1, design_runs=design,
                   traces_validated_against_impl=accepted + len(rej), scenarios=len(traces), evaluations=len(traces),
                   distinct_nontrivial=len({' '.join(e['ev'] + e.get('ch', '') for e in t if e['ev'] in KEEP) for t in traces}),
                   overlap_probes=probes, send_events=sends,
                   rule='workloads of the server and client families (TLC-simulated behaviours + directed histories) with in-operation probes: a goroutine is parked inside Send/Close '
                        'while every other goroutine and Stop/Notify/CancelRequest/Close are let loose; distinct = distinct sequences of channel events',
                   samples=[dict(scenario=traces[0][0]['scn'], channel_events=[e['ev'] for e in traces[0] if e['ev'] in KEEP][:40])], exhaustive=False)
        C.write_evidence(prop, tier, seed, 'model_checking', cov, time.time() - t0, len(violations),
                         assumptions=['trusted: instrumented channel wrapper logs begin/end inside the methods on the calling goroutine'])
        for name, path, r in violations:
            print('VIOLATION property=%s replay=%s' % (prop, path))
            print('  scenario %s rejected at event %d: %s' % (name, r['at'], json.dumps(r['event'])[:300]))
        return 1 if violations else 0
    finally:
        shutil.rmtree(work, ignore_errors=True)

def grammar_traces(prop, tier, seed, work):
    """Run a workload of both concurrent families and validate every Send event against ChanDiscipline with Enforce={prop}."""
    rng = random.Random(seed * 104729 + 13)
    nsim = 80 if tier == 'quick' else 800
    bs = C.build_harness('srvfam', work); bc = C.build_harness('clifam', work)
    srv, cli = [], []
    for p in ('C01', 'C09'):
        srv += SF.gen_scenarios(p, 'quick', seed + 23, nsim // 2)
    for p in ('C04',):
        cli += CF.gen_scenarios(p, 'quick', seed + 23, nsim)
    ws = os.path.join(work, 'gs'); wc = os.path.join(work, 'gc'); os.makedirs(ws); os.makedirs(wc)
    ts, i1 = C.run_scenarios(bs, srv, ws)
    tc, i2 = C.run_scenarios(bc, cli, wc)
    if i1['tool_trouble'] or i2['tool_trouble']:
        raise C.ToolError('; '.join(i1['tool_trouble'] + i2['tool_trouble']))
    traces = ts + tc
    accepted, rej = C.validate_traces(traces, 'ChanDiscipline', {prop}, TMPL, work, keep_events=KEEP - {'Crash', 'Deadlock', 'Leak'})
    viol = []
    byname = {s['name']: s for s in srv + cli}
    for r in rej[:3]:
        name = r['trace'][0]['scn']
        path = C.save_replay(prop, name, dict(property=prop, family='srv' if name in {s['name'] for s in srv} else 'cli', scenario=byname[name], event=r['event']))
        viol.append((name, path, r))
    return dict(violations=viol, traces=len(traces), sends=sum(1 for t in traces for e in t if e['ev'] == 'Send'))
