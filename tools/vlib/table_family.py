"""Reference-function families: a TLA+ module evaluated by TLC over the whole product of abstract input classes,
exported as a JSON table, replayed cell by cell into the real code by a Go harness package."""
import json, os, shutil, subprocess, time
from . import common as C

def export_table(module, workdir, name='table.json', timeout=600):
    out = os.path.join(workdir, name)
    rc, txt = C.run_tlc(workdir, module, 'SPECIFICATION Spec\n', workers=1, timeout=timeout, env={'OUT': out}, cfgname=module + '_export.cfg')
    if not os.path.exists(out) or 'Error' in txt.replace('Errors: 0', ''):
        raise C.ToolError('TLC evaluation of %s failed (rc=%s):\n%s' % (module, rc, txt[-3000:]))
    return out

def run_shards(binp, test, workdir, nshard, env, timeout=1500):
    procs = []
    for k in range(nshard):
        e = dict(os.environ); e.update(env)
        e.update(VERIF_SHARD=str(k), VERIF_NSHARD=str(nshard), VERIF_OUT=os.path.join(workdir, 'res_%d.json' % k))
        log = open(os.path.join(workdir, 'shard_%d.log' % k), 'w')
        procs.append((k, subprocess.Popen(['timeout', str(timeout), binp, '-test.run', '^' + test + '$', '-test.timeout', '0'], cwd=workdir, env=e,
                                          stdout=log, stderr=subprocess.STDOUT), log))
    results, crashes = [], []
    for k, p, log in procs:
        rc = p.wait(); log.close()
        rp = os.path.join(workdir, 'res_%d.json' % k)
        txt = open(log.name).read()
        if rc == 124:
            raise C.ToolError('shard %d of %s timed out' % (k, test))
        if rc != 0 or not os.path.exists(rp):
            crashes.append(dict(shard=k, rc=rc, log=txt[-3000:]))
            continue
        results.append(json.load(open(rp)))
    return results, crashes

def library_crash(log):
    """True iff the stack of the panicking goroutine passes through the library under test (/repo)."""
    import re
    m = re.search(r'(panic: |fatal error: )', log)
    if not m:
        return False
    blk = log[m.start():]
    g = blk.find('goroutine ')
    stack = blk[g:].split('\n\n')[0] if g >= 0 else blk
    return (C.REPO + '/') in stack or 'fatal error: ' in blk[:200]

def finish(prop, tier, seed, t0, level, states, results, crashes, violations, rule, samples, extra=None, exhaustive=True, trusted=()):
    evals = sum(r.get('evaluations', 0) for r in results)
    cov = dict(states=max(1, states), transitions=max(1, states), traces_validated_against_impl=evals, evaluations=max(1, evals),
               distinct_nontrivial=max(2, sum(r.get('cells', 0) for r in results)), rule=rule, samples=samples or ['(none)'],
               exhaustive=exhaustive, harness_crashes=len(crashes), trusted_base=list(trusted))
    if extra: cov.update(extra)
    C.write_evidence(prop, tier, seed, level, cov, time.time() - t0, len(violations), assumptions=list(trusted))
    import zlib
    shown = violations[:5]
    for v in shown:
        path = C.save_replay(prop, 'input_%d' % (zlib.crc32(json.dumps(v, sort_keys=True).encode()) % 10**8), dict(v, property=prop))
        print('VIOLATION property=%s replay=%s' % (prop, path))
        print('  ' + json.dumps(v)[:400])
    return 1 if violations else 0

def wire_check(prop, tier, seed, replay=None):
    t0 = time.time()
    work = C.scratch('wire_' + prop)
    try:
        table = export_table('Wire', work)
        ncells = json.load(open(table))['ncells']
        binp = C.build_harness('wirefam', work)
        env = dict(VERIF_TABLE=table, VERIF_SEED=str(seed), VERIF_VARIANTS='4',
                   VERIF_RANDOM='150' if tier == 'quick' else '30000', VERIF_BATCHES='120' if tier == 'quick' else '25000',
                   VERIF_PATLEN='4' if tier == 'quick' else '6')
        cviol, cinfo = [], {}
        if replay and 'scenario' in json.load(open(replay)):      # a history of the server family (see below)
            from . import server_family as SF
            cviol, cinfo = SF.contract_part(prop, tier, seed, work, json.load(open(replay))['scenario'])
            C.write_evidence(prop, tier, seed, 'model_checking', dict(states=1, transitions=1, traces_validated_against_impl=1, evaluations=1, distinct_nontrivial=1, rule='replay of one recorded history', samples=['(replay)'], exhaustive=False, **cinfo), time.time() - t0, len(cviol))
            for name, path, r in cviol:
                print('VIOLATION property=%s replay=%s' % (prop, path))
            return 1 if cviol else 0
        if replay:
            env['VERIF_REPLAY_INPUT'] = json.load(open(replay))['input']
        results, crashes = run_shards(binp, 'TestWire', work, C.NCPU, env)
        violations = [v for r in results for v in (r.get('violations') or []) if v['property'] == prop]
        if prop == 'C02' and not replay:
            # the same verdicts inside the histories of the server family: ServerContract's guards tagged C02
            from . import server_family as SF
            cviol, cinfo = SF.contract_part(prop, tier, seed, work)
            cinfo['contract_violations'] = len(cviol)
            for name, path, r in cviol:
                print('VIOLATION property=%s replay=%s' % (prop, path))
                print('  scenario %s rejected at event %d: %s' % (name, r['at'], json.dumps(r['event'])[:300]))
        for c in crashes:
            if prop == 'C02' and library_crash(c['log']):
                violations.append(dict(property='C02', input='(see log)', push=False, why='harness worker died: the server crashed the process: ' + c['log'][-600:]))
            else:
                raise C.ToolError('wire shard crashed: ' + c['log'][-800:])
        classes = {}
        for r in results:
            for k, n in (r.get('classes') or {}).items(): classes[k] = classes.get(k, 0) + n
        samples = [s for r in results for s in (r.get('samples') or [])][:6]
        rcode = finish(prop, tier, seed, t0, 'model_checking', ncells, results, crashes, violations,
                      rule='every cell of the single-member product Ver x Id x Method x Params x Extra (%d cells, evaluated by TLC from spec/Wire.tla) concretised into byte strings '
                           '(key order / whitespace variants), sent to a real Server with AllowPush off and on and given to ParseRequests; plus random batches of 2-3 members, every composition of member verdict classes of length 2..4 (thorough: as far as 40000 patterns go), '
                           'envelope cases and seeded mutations; distinct_nontrivial = abstract cells replayed' % ncells,
                      samples=samples, extra=dict(verdict_classes=classes, class_patterns=max(r.get('patterns', 0) for r in results) if results else 0, aborted_shards=sum(1 for r in results if r.get('aborted')), batches=sum(r.get('batches', 0) for r in results), mutated=sum(r.get('random', 0) for r in results), **cinfo),
                      trusted=['concretisation templates and the generic-JSON response validator in harness/wirefam', 'TLC evaluation of spec/Wire.tla'])
        return 1 if (rcode or cviol) else 0
    finally:
        shutil.rmtree(work, ignore_errors=True)

def frame_check(prop, tier, seed, replay=None):
    t0 = time.time()
    work = C.scratch('frame_' + prop)
    try:
        out = os.path.join(work, 'table.json')
        cfg = 'SPECIFICATION Spec\nCONSTANTS MaxTok = %d\n SplitLen = %d\n' % ((3, 7) if tier == 'quick' else (4, 9))
        rc, txt = C.run_tlc(work, 'MCFraming', cfg, workers=1, timeout=1500, env={'OUT': out}, cfgname='framing_export.cfg')
        if not os.path.exists(out) or 'Model checking completed' not in txt:
            raise C.ToolError('TLC evaluation of Framing failed (rc=%s):\n%s' % (rc, txt[-3000:]))
        t = json.load(open(out)); ncells = t['nheader'] + t['nsplit']
        binp = C.build_harness('framefam', work)
        env = dict(VERIF_TABLE=out, VERIF_SEED=str(seed), VERIF_TIER=tier, VERIF_WHICH=prop)
        results, crashes = run_shards(binp, 'TestFrames', work, C.NCPU, env, timeout=3000)
        violations = [v for r in results for v in (r.get('violations') or []) if v['property'] == prop]
        for c in crashes:
            if not library_crash(c['log']):
                raise C.ToolError('framing shard crashed outside the library: ' + c['log'][-1500:])
            violations.append(dict(property=prop, framing='?', stream='(see log)', why='the library crashed the process: ' + c['log'][-900:]))
        samples = [s for r in results for s in (r.get('samples') or [])][:5] or ['(record class sequences; see rule)']
        return finish(prop, tier, seed, t0, 'model_checking', ncells, results, crashes, violations,
                      rule=('C12: every token stream of <= %d tokens over the 17-token header pool on which the symbol-level reference decoder of spec/Framing.tla is exact (%d streams, %d skipped) under '
                            'StrictHeader/Header/LSP/empty-mime, every byte stream of <= %d bytes over {a,b,SEP} for Line/Split; each decoded by the real Recv under all cut sets (short streams) or '
                            '1-byte / whole / random cuts, with and without data-together-with-EOF; plus absurd Content-Length values and seeded byte mutations (no-crash / no-fabrication oracle). '
                            'C11: record class sequences (all pairs, sampled triples; sizes empty..70000, thorough: 1 MiB+1, 5 MiB, 16 MiB+1) sent with the real Send and received under the same fragmentations; '
                            'distinct_nontrivial = streams / record sequences') % (t and (3 if tier == 'quick' else 4), t['nheader'], t['skipped'], 7 if tier == 'quick' else 9),
                      samples=samples, trusted=['symbol-to-byte mapping and chunk-controlled reader in harness/framefam', 'TLC evaluation of spec/Framing.tla'])
    finally:
        shutil.rmtree(work, ignore_errors=True)

def simple_table_check(prop, tier, seed, module, pkg, test, cfg_quick, cfg_thorough, rule, trusted, extra_env=None, replay=None):
    t0 = time.time()
    work = C.scratch(pkg + '_' + prop)
    try:
        out = os.path.join(work, 'table.json')
        cfg = 'SPECIFICATION Spec\n' + (cfg_quick if tier == 'quick' else cfg_thorough)
        rc, txt = C.run_tlc(work, module, cfg, workers=1, timeout=1500, env={'OUT': out}, cfgname=module + '_export.cfg')
        if not os.path.exists(out) or 'Model checking completed' not in txt:
            raise C.ToolError('TLC evaluation of %s failed (rc=%s):\n%s' % (module, rc, txt[-3000:]))
        ncells = json.load(open(out)).get('ncells', 1)
        binp = C.build_harness(pkg, work)
        env = dict(VERIF_TABLE=out, VERIF_SEED=str(seed), VERIF_TIER=tier, VERIF_WHICH=prop)
        if extra_env: env.update(extra_env)
        results, crashes = run_shards(binp, test, work, C.NCPU, env, timeout=3000)
        violations = [v for r in results for v in (r.get('violations') or []) if v['property'] == prop]
        for c in crashes:
            if not library_crash(c['log']):
                raise C.ToolError('%s shard crashed outside the library: %s' % (pkg, c['log'][-1500:]))
            violations.append(dict(property=prop, why='the library crashed the process: ' + c['log'][-900:]))
        classes = {}
        for r in results:
            for k, n in (r.get('classes') or {}).items(): classes[k] = classes.get(k, 0) + n
        samples = [s for r in results for s in (r.get('samples') or [])][:6]
        return finish(prop, tier, seed, t0, 'model_checking', ncells, results, crashes, violations, rule=rule % dict(ncells=ncells),
                      samples=samples, extra=dict(outcome_classes=classes), trusted=trusted)
    finally:
        shutil.rmtree(work, ignore_errors=True)

def dispatch_check(prop, tier, seed, replay=None):
    return simple_table_check(prop, tier, seed, 'MCDispatch', 'dispfam', 'TestDispatch', 'CONSTANTS MaxSeg = 3\n', 'CONSTANTS MaxSeg = 4\n',
        rule='every method name of up to 3 (thorough: 4) segments over {"", rpc, RPC, rpcx, a, b, é} (plus rpc.serverInfo variants) x 4 mux shapes (Map, ServiceMap, nested ServiceMap, '
             'prefix-related service keys) x DisableBuiltin on/off = %(ncells)d cells evaluated by TLC from spec/Dispatch.tla; each sent as a call and as a notification to a real Server whose mux is built from the '
             'table\'s own mux description; compared: which handler ran, what it and the assigner saw through InboundRequest/ServerFromContext, the answer, Names() sorted, rpc.serverInfo contents',
        trusted=['mux construction from the exported description and the name joiner in harness/dispfam', 'TLC evaluation of spec/Dispatch.tla'])

def errors_check(prop, tier, seed, replay=None):
    return simple_table_check(prop, tier, seed, 'MCErrors', 'errfam', 'TestErrors', 'CONSTANTS Depth = 2\n', 'CONSTANTS Depth = 3\n',
        rule='every error tree of height <= 2 (thorough: 3) over leaves {*Error, Code.Err, value/pointer ErrCoder, context.Canceled, DeadlineExceeded, plain} and wrappers {%%w, wrapping ErrCoder, errors.Join} '
             '= %(ncells)d trees evaluated by TLC from spec/Errors.tla (which also checks ErrorCode(FromWire(ToWire(e))) = ErrorCode(e) on the reference); each built from the real constructors, returned by a real handler '
             'and observed through Call, CallResult, Batch and a server Callback; plus all listed and 2000 seeded int32 codes, WithData receivers and unmarshalable results',
        trusted=['error construction from the tree description in harness/errfam', 'TLC evaluation of spec/Errors.tla'])

def adapt_check(prop, tier, seed, replay=None):
    return simple_table_check(prop, tier, seed, 'HandlerAdapt', 'adaptfam', 'TestAdapt', '', '',
        rule='decision tables of spec/HandlerAdapt.tla evaluated by TLC (%(ncells)d cells in total): the signature grammar nin x in0 x variadic x nout x result kinds (function types synthesised with reflect.FuncOf/MakeFunc), '
             'struct-like parameter variants (tagged, mixed, embedded, tagged-embedded, no eligible fields, pointer, self-strict) x SetStrict x AllowArray x 13 params shapes, non-struct kinds x params shapes, '
             'Positional arities 1..6 x 12 params shapes (null / wrong element at every position), name-list lengths 0..7, Args lengths 0..4 and Obj shapes; called/not-called/InvalidParams from the table, received values compared with encoding/json',
        trusted=['parameter concretisation and the independent array-to-field translation in harness/adaptfam', 'encoding/json as the value oracle', 'TLC evaluation of spec/HandlerAdapt.tla'])

def getter_check(prop, tier, seed, replay=None):
    t0 = time.time()
    work = C.scratch('get_' + prop)
    try:
        # design level: the HTTP channel model, and its sensitivity to finding F11
        design = C.model_check('httpchan', 'HttpChan', timeout=600)
        w = C.scratch('tlcbad')
        try:
            rc, out = C.run_tlc(w, 'HttpChan', C.read_cfg('httpchan_f11'), timeout=300)
            if 'Invariant BodiesClosedAtRest is violated' not in out:
                raise C.ToolError('HttpChan sensitivity run (F11 switch off) did not find the expected violation')
        finally:
            shutil.rmtree(w, ignore_errors=True)
        out = os.path.join(work, 'qtable.json')
        rc, txt = C.run_tlc(work, 'QueryTyping', 'SPECIFICATION Spec\nCONSTANTS MaxLen = %d\n' % (3 if tier == 'quick' else 4), workers=1, timeout=2400, env={'OUT': out}, cfgname='qt_export.cfg')
        if not os.path.exists(out) or 'Model checking completed' not in txt:
            raise C.ToolError('TLC evaluation of QueryTyping failed (rc=%s):\n%s' % (rc, txt[-3000:]))
        ncells = json.load(open(out))['ncells']
        binp = C.build_harness('getfam', work)
        results, crashes = run_shards(binp, 'TestQuery', work, C.NCPU, dict(VERIF_TABLE=out, VERIF_PART='query', VERIF_SEED=str(seed)), timeout=3000)
        # (c) HTTP channel behaviours from the model
        behs = C.simulate_states('httpchan', 'HttpChan', 200 if tier == 'quick' else 3000, 14, seed * 13 + 5)
        scs = []
        def proj(st):
            g = st.get('g')
            if g is None: return None
            nd = sum(1 for x in g if x['st'] == 'deliver')
            alldone = all(x['st'] == 'done' for x in g)
            auto = (st['recvpc'] == 'wait' and (nd > 0 or st['closepc'] == 'ret')) or (st['closepc'] == 'drain' and (nd > 0 or alldone))
            if auto: return None          # the model has not yet taken a step that happens by itself
            return dict(Nopen=st['nopen'], Nclosed=st['nclosed'], Nrecv=st['nrecv'], Neof=st['neof'], Refused=st['refused'], Ndeliver=nd, Closepc=st['closepc'])
        for bi, beh in enumerate(behs):
            steps = []
            for act, a, st in beh:
                step = None
                if act == 'Send': step = dict(a='send', kind=a[0])
                elif act == 'DoRet': step = dict(a='doret', i=a[0])
                elif act == 'RecvStart': step = dict(a='recv')
                elif act == 'CloseStart': step = dict(a='close')
                elif act in ('RecvTake', 'RecvEOF', 'Drain', 'CloseRet', 'Init'): step = None
                else: raise C.ToolError('unknown HttpChan action ' + act)
                if step is None:
                    if steps: steps[-1]['state'] = proj(st)
                    continue
                step['state'] = proj(st)
                steps.append(step)
            # a Close right behind a Send (no pause in which the request goroutine could start) in every other behaviour that has the pair
            if bi % 2 == 0:
                for k in range(len(steps) - 1):
                    if steps[k]['a'] == 'send' and steps[k + 1]['a'] == 'close': steps[k]['nowait'] = True
            scs.append(dict(name='httpchan-%d' % bi, steps=steps))
        # ... and in directed ones, whatever the simulation happened to draw
        for di, kinds in enumerate((['call'], ['note'], ['bad'], ['fail'], ['call', 'call'], ['note', 'call'])):
            steps = [dict(a='send', kind=k, state=None) for k in kinds]
            steps[-1]['nowait'] = True
            steps += [dict(a='close', state=None)] + [dict(a='doret', i=len(kinds) - j, state=None) for j in range(len(kinds))] + [dict(a='recv', state=None)]
            scs.append(dict(name='httpchan-send-close-%d' % di, steps=steps))
        sp = os.path.join(work, 'hscn.ndjson')
        with open(sp, 'w') as f:
            for s in scs: f.write(json.dumps(s) + '\n')
        w2 = os.path.join(work, 'h'); os.makedirs(w2)
        r2, c2 = run_shards(binp, 'TestHTTPChan', w2, C.NCPU, dict(VERIF_PART='httpchan', VERIF_SCENARIOS=sp), timeout=1500)
        w3 = os.path.join(work, 'e'); os.makedirs(w3)
        r3, c3 = run_shards(binp, 'TestEquiv', w3, 1, dict(VERIF_PART='equiv'), timeout=600)
        violations = [v for r in results + r2 + r3 for v in (r.get('violations') or []) if v['property'] == prop]
        for c in crashes + c2 + c3:
            if not library_crash(c['log']):
                raise C.ToolError('getfam shard crashed outside the library: ' + c['log'][-1500:])
            violations.append(dict(property=prop, input='(see log)', why='the library crashed the process: ' + c['log'][-900:]))
        classes = {}
        for r in results:
            for k, n in (r.get('classes') or {}).items(): classes[k] = classes.get(k, 0) + n
        samples = [s for r in results + r3 for s in (r.get('samples') or [])][:6]
        return finish(prop, tier, seed, t0, 'model_checking', ncells + design['states'], results + r2 + r3, crashes, violations,
                      rule='(a) every query value of <= %d tokens over 25 token classes (quotes, signs, digits, dot, e, x, _, letters, base64, padding, space, backslash, inf/nan/true/false/null in several cases) = %d values typed by '
                           'spec/QueryTyping.tla and replayed into ParseQuery, ParseBasic and a real Getter (status, JSON body); paths and the status mapping; (c) %d behaviours simulated by TLC from spec/HttpChan.tla '
                           '(exhaustively checked: %d states) replayed into a real jhttp.Channel with gated round trips and counted response bodies, comparing the projected state after every action; '
                           '(b) one Call/Notify/Batch/CallResult workload over jhttp.Channel+Bridge and over a direct connection' % (3 if tier == 'quick' else 4, ncells, len(scs), design['states']),
                      samples=samples, extra=dict(typing_classes=classes, httpchan_behaviours=len(scs), design_runs=[design]),
                      trusted=['token-to-text mapping and result classification in harness/getfam', 'strconv/base64 as value oracles', 'TLC'])
    finally:
        shutil.rmtree(work, ignore_errors=True)

def emit_check(prop, tier, seed, replay=None):
    """C13: (a) ParseRequests against the Wire table, (b.i) message grammar on every Send event of the concurrent families,
    (b.ii) the Emit product pushed through every emission path."""
    t0 = time.time()
    work = C.scratch('emit_' + prop)
    try:
        wt = export_table('Wire', work, name='wire.json')
        nwire = json.load(open(wt))['ncells']
        bw = C.build_harness('wirefam', work)
        ww = os.path.join(work, 'w'); os.makedirs(ww)
        rw, cw = run_shards(bw, 'TestWire', ww, C.NCPU, dict(VERIF_TABLE=wt, VERIF_SEED=str(seed), VERIF_VARIANTS='4',
                                                          VERIF_RANDOM='100' if tier == 'quick' else '2000', VERIF_BATCHES='100' if tier == 'quick' else '2000'))
        et = os.path.join(work, 'emit.json')
        rc, txt = C.run_tlc(work, 'Emit', 'SPECIFICATION Spec\n', workers=1, timeout=900, env={'OUT': et}, cfgname='emit_export.cfg')
        if not os.path.exists(et) or 'Model checking completed' not in txt:
            raise C.ToolError('TLC evaluation of Emit failed (rc=%s):\n%s' % (rc, txt[-3000:]))
        nemit = json.load(open(et))['ncells']
        be = C.build_harness('emitfam', work)
        we = os.path.join(work, 'e'); os.makedirs(we)
        re_, ce = run_shards(be, 'TestEmit', we, C.NCPU, dict(VERIF_TABLE=et, VERIF_SEED=str(seed), VERIF_STRIDE='4' if tier == 'quick' else '1'), timeout=3000)
        violations = [v for r in rw + re_ for v in (r.get('violations') or []) if v['property'] == prop]
        for c in cw + ce:
            if not library_crash(c['log']):
                raise C.ToolError('C13 shard crashed outside the library: ' + c['log'][-1500:])
            violations.append(dict(property=prop, why='the library crashed the process: ' + c['log'][-900:]))
        # (b.i) the message grammar on every record handed to a channel by the concurrent families
        from . import chan_family
        gram = chan_family.grammar_traces(prop, tier, seed, work)
        for name, path, r in gram['violations']:
            violations.append(dict(property=prop, scenario=name, why='emitted record violates the message grammar', event=r['event'], replay_scenario=path))
        classes = {}
        for r in re_:
            for k, n in (r.get('classes') or {}).items(): classes[k] = classes.get(k, 0) + n
        samples = [s for r in re_ for s in (r.get('samples') or [])][:6]
        results = rw + re_
        return finish(prop, tier, seed, t0, 'model_checking', nwire + nemit, results, cw + ce, violations,
                      rule='(a) ParseRequests on every cell of the Wire product (%d cells: totality, entry count/order, flagged members per spec/Wire.tla Flagged, id/method fields) and on batches/mutations; '
                           '(b.i) the one-line / version grammar guard (tag C13 of spec/ChanDiscipline.tla) on all %d Send events of %d server- and client-family traces; '
                           '(b.ii) %d of the %d cells of spec/Emit.tla (path x 1-2 method character classes x value class; quick tier takes every 4th) pushed through Call, Batch, Notify, responses, error responses, '
                           'pushed notifications, callbacks, callback replies and Bridge replies, captured on the channel and decoded by the library parser and an independent decoder; '
                           'NOTE: (b.ii) uses TLC as a combinatorial enumerator; its oracle is decode(encode(x)) = x computed in Go' %
                           (nwire, gram['sends'], gram['traces'], sum(r.get('cells', 0) for r in re_), nemit),
                      samples=samples, extra=dict(emission_paths=classes, grammar_traces=gram['traces'], send_events=gram['sends']),
                      trusted=['value concretisation and the generic JSON decoder in harness/emitfam', 'TLC evaluation of spec/Wire.tla and spec/Emit.tla'])
    finally:
        shutil.rmtree(work, ignore_errors=True)
