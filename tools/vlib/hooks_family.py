"""Repository tests as trace sources: the unedited test suite of /repo is run with the verif tag and VERIF_HOOKTRACE set;
the recorded linearisation-point events of every server instance are validated by TLC against spec/ServerHooks.tla."""
import glob, json, os, shutil, subprocess
from . import common as C
from .client_family import TMPL

def record(workdir, timeout=900):
    d = os.path.join(workdir, 'hooktrace'); os.makedirs(d, exist_ok=True)
    env = dict(C.GOENV, VERIF_HOOKTRACE=d)
    p = subprocess.run(['go', 'test', '-tags', 'verif', '-count=1', './...'], cwd=C.REPO, env=env, stdout=subprocess.PIPE, stderr=subprocess.STDOUT, text=True, timeout=timeout)
    files = sorted(glob.glob(os.path.join(d, 'hooks-*.ndjson')))
    if not files:
        raise C.ToolError('running the repository tests with hooks recorded nothing:\n' + p.stdout[-2000:])
    traces = []
    for f in files:
        evs = [dict(ev='Reset', scn=os.path.basename(f))]
        for line in open(f):
            e = json.loads(line)
            if not e['ev'].startswith('srv.'): continue
            n = dict(ev=e['ev'], srv=e.get('srv', ''), req=e.get('req', ''), note=bool(e.get('note', False)), n=0, q=0, err='nil')
            if e['ev'] in ('srv.enqueue', 'srv.dequeue'):
                n['n'], n['q'] = e.get('a1', 0), e.get('a2', 0)
            elif e['ev'] == 'srv.assign':
                n['err'] = e.get('a3', 'nil')
            elif e['ev'] in ('srv.deliver', 'srv.barrier.pass'):
                n['n'] = e.get('a1', 0)
            elif e['ev'] == 'srv.stop':
                n['n'] = e.get('a2', 0)
            evs.append(n)
        if len(evs) > 1: traces.append(evs)
    return traces, (p.returncode == 0), p.stdout[-1500:]

def validate(prop, workdir, attempts=3):
    """Returns (info dict, violations list of (name, replay path, rejection))."""
    info = dict(hook_traces=0, hook_events=0, hook_drift=0)
    for k in range(attempts):
        w = os.path.join(workdir, 'hooks_%d' % k); os.makedirs(w, exist_ok=True)
        traces, suite_ok, tail = record(w)
        info['hook_traces'] = len(traces); info['hook_events'] = sum(len(t) for t in traces); info['repo_suite_passed_with_hooks'] = suite_ok
        accepted, rej = C.validate_traces(traces, 'ServerHooks', {prop}, TMPL, w)
        # binding of the model to the code at the level of the hook events (diagnostic only)
        _, drift = C.validate_traces(traces, 'ServerHooks', {'BIND'}, TMPL, os.path.join(w))
        info['hook_drift'] = len(drift)
        if drift:
            import sys
            print('CONFORMANCE-DRIFT (hook events vs ServerHooks, not a verdict): %s' % json.dumps(drift[0]['event'])[:300], file=sys.stderr)
        if not rej:
            return info, []
        last = rej
    # rejected in every attempt: a violation observed in free-running executions of the repository's own tests
    out = []
    for r in last[:2]:
        name = r['trace'][0]['scn']
        out.append((name, C.save_replay(prop, 'repo-tests-' + name, dict(property=prop, source='repository test suite with hooks', rejected_at=r['at'], event=r['event'], trace=r['trace'])), r))
    return info, out
