import random
"""Transition cover of a TLC state graph: dump the graph (-dump dot,actionlabels), then choose a set of
paths from the initial state that traverses every edge at least once (greedy: shortest prefix to an
uncovered edge, then keep following uncovered edges)."""
import os, re, shutil, collections
from . import common as C, tlaval

_edge = re.compile(r'^(-?\d+) -> (-?\d+) \[label="(.*?)",color=')
_node = re.compile(r'^(-?\d+) \[label="(.*)"(,style = filled)?\];?$')

def _unesc(s):
    return s.replace('\\"', '"').replace('\\\\', '\\')

def parse_label(lbl):
    lbl = _unesc(lbl)
    m = re.match(r'^([A-Za-z0-9_]+)(?:\((.*)\))?$', lbl, re.S)
    name, args = m.group(1), m.group(2)
    return name, [tlaval.parse(a) for a in tlaval.split_args(args)] if args else []

def parse_state(lbl, want):
    out, key, buf = {}, None, []
    def flush():
        if key in want:
            try: out[key] = tlaval.parse(' '.join(buf))
            except Exception: pass
    for part in _unesc(lbl).split('\\n'):
        m = re.match(r'^/\\ (\w+) = (.*)$', part)
        if m:
            flush(); key, buf = m.group(1), [m.group(2)]
        elif key is not None:
            buf.append(part.strip())
    flush()
    return out

def graph(cfgname, module, timeout=1800, want_vars=()):
    w = C.scratch('tlcdump')
    try:
        cfg = C.read_cfg(cfgname).replace('VIEW View', '')
        rc, out = C.run_tlc(w, module, cfg, args=['-dump', 'dot,actionlabels', os.path.join(w, 'graph')], timeout=timeout)
        p = os.path.join(w, 'graph.dot')
        if not os.path.exists(p) or 'Model checking completed' not in out:
            raise C.ToolError('graph dump of %s failed:\n%s' % (cfgname, out[-2000:]))
        edges, nodes, init = [], {}, None
        for line in open(p, errors='replace'):
            m = _edge.match(line)
            if m:
                edges.append((m.group(1), m.group(2), m.group(3))); continue
            m = _node.match(line.rstrip('\n'))
            if m:
                if init is None: init = m.group(1)
                if want_vars: nodes[m.group(1)] = m.group(2)
        return edges, nodes, init
    finally:
        shutil.rmtree(w, ignore_errors=True)

def cover_paths(edges, init, maxlen=70, rng=None):
    adj = collections.defaultdict(list)
    for i, (u, v, l) in enumerate(edges):
        if u != v or True: adj[u].append(i)
    # BFS tree
    parent, depth = {init: None}, {init: 0}
    dq = collections.deque([init])
    while dq:
        u = dq.popleft()
        for ei in adj[u]:
            v = edges[ei][1]
            if v not in parent:
                parent[v] = ei; depth[v] = depth[u] + 1; dq.append(v)
    def prefix(u):
        p = []
        while parent[u] is not None:
            p.append(parent[u]); u = edges[parent[u]][0]
        return p[::-1]
    uncovered = set(i for i, (u, v, l) in enumerate(edges) if u in parent)
    order = sorted(uncovered, key=lambda i: depth[edges[i][0]])
    paths = []
    for ei in order:
        if ei not in uncovered: continue
        path = prefix(edges[ei][0]) + [ei]
        cur = edges[ei][1]
        while len(path) < maxlen:
            nxt = [j for j in adj[cur] if j in uncovered and j not in path]
            if not nxt: break
            j = nxt[0] if rng is None else rng.choice(nxt)
            path.append(j); cur = edges[j][1]
        for j in path: uncovered.discard(j)
        paths.append(path)
    return paths

def behaviours(cfgname, module, want_vars=(), maxlen=70, rng=None, limit=None):
    """Returns (behaviours as lists of (action, args, state-or-None), number of edges, number of states)."""
    edges, nodes, init = graph(cfgname, module, want_vars=want_vars)
    paths = cover_paths(edges, init, maxlen=maxlen, rng=rng)
    if limit and len(paths) > limit:
        (rng or random).shuffle(paths); paths = paths[:limit]
    cache = {}
    def st(n):
        if not want_vars: return None
        if n not in cache: cache[n] = parse_state(nodes.get(n, ''), set(want_vars))
        return cache[n]
    lab = {}
    out = []
    for p in paths:
        beh = []
        for ei in p:
            u, v, l = edges[ei]
            if l not in lab: lab[l] = parse_label(l)
            name, args = lab[l]
            beh.append((name, args, st(v)))
        out.append(beh)
    return out, len(edges), len({e[0] for e in edges} | {e[1] for e in edges})
