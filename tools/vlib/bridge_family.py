"""C18: jhttp.Bridge.  BridgeImpl -> scenarios -> real Bridge with concurrent HTTP requests -> BridgeContract."""
import json, os, random, re, shutil, time
from . import common as C
from .client_family import TMPL

Ca = lambda i: dict(k='call', id=i)
No = dict(k='note', id=0)
Iv = lambda i: dict(k='inv', id=i)
Vo = dict(k='void', id=0)   # {"jsonrpc":"2.0"}: no id, no method
BODIES = {'bridge': {'h1': [Ca(1)], 'h2': [Ca(1), No, Ca(2)], 'h3': [Ca(2), Iv(3), Ca(1)]},
          'bridge2': {'h1': [Ca(1), Ca(2)], 'h2': [Ca(2), Ca(1)]},
          'bridge3': {'h1': [No, Iv(1)], 'h2': [Iv(2)], 'h3': [No], 'h4': [Iv(0), No, Iv(3)], 'h5': [No, No, Ca(1)]}}
OUTS = ['ok', 'ok', 'ok', 'err:7', 'err:-32602', 'err:plain', 'err:baddata']

def convert(beh, rng, name, bodies):
    steps, cid, nxt = [], {}, 1
    nalloc = {h: 0 for h in bodies}
    for item in beh:
        act, a = item[0], item[1]
        if act == 'Init': continue
        if act == 'Start':
            h = a[0]
            steps.append(dict(a='http', h=h, kind='ok', mem=[dict(m, var=rng.randrange(6)) for m in bodies[h]]))
        elif act == 'Alloc':
            h = a[0]; nalloc[h] += 1
            calls = [i for i, m in enumerate(bodies[h]) if m['k'] == 'call']
            cid[nxt] = '%s.%d' % (h, calls[nalloc[h] - 1] + 1); nxt += 1
            steps.append(dict(a='gate', site='cli.req.lock', h=h))
        elif act == 'Send':
            steps.append(dict(a='gate', site='cli.send.lock', h=a[0])); steps.append(dict(a='drainsrv'))
            # notifications of this request run too: release them in passing
            for i, m in enumerate(bodies[a[0]]):
                if m['k'] == 'note': steps.append(dict(a='hret', tag='%s.%d' % (a[0], i + 1), out=rng.choice(OUTS)))
            steps.append(dict(a='drainsrv'))
        elif act == 'HandlerRet':
            steps.append(dict(a='hret', tag=cid[a[0]], out=rng.choice(OUTS))); steps.append(dict(a='drainsrv'))
        elif act == 'Reply': steps.append(dict(a='drainsrv'))
        else: raise C.ToolError('unknown BridgeImpl action ' + act)
    return dict(name=name, seed=rng.randrange(1 << 30), steps=steps)

D = dict(a='drain')
def directed(rng):
    out = []
    def add(name, steps): out.append(dict(name='dir-' + name, seed=rng.randrange(1 << 30), steps=steps))
    def http(h, mem, kind='ok'): return dict(a='http', h=h, kind=kind, mem=[dict(m, var=rng.randrange(6)) for m in mem])
    def hret(t, o=None): return dict(a='hret', tag=t, out=o or rng.choice(OUTS))
    for v in range(3):
        add('collide-%d' % v, [http('h1', [Ca(1)]), http('h2', [Ca(1)]), D, hret('h2.1'), D, hret('h1.1'), D])
        add('position-%d' % v, [http('h1', [Ca(100), Ca(5)]), http('h2', [Ca(101), Ca(6)]), D, hret('h1.2'), hret('h2.1'), D, hret('h2.2'), hret('h1.1'), D])
        add('interleave-alloc-%d' % v, [http('h1', [Ca(1), Ca(2)]), http('h2', [Ca(2), Ca(1)]), dict(a='gate', site='cli.req.lock', h='h1'), dict(a='gate', site='cli.req.lock', h='h2'),
                                        dict(a='gate', site='cli.req.lock', h='h2'), dict(a='gate', site='cli.req.lock', h='h1'), D, hret('h1.1'), hret('h2.2'), hret('h2.1'), hret('h1.2'), D])
        add('mixed-%d' % v, [http('h1', [No, Ca(1), Iv(2), Ca(3)]), http('h2', [No, No]), http('h3', [Iv(0)]), D, hret('h1.1'), hret('h2.1'), hret('h2.2'), D, hret('h1.2'), hret('h1.4'), D])
        if v == 0:
            # every composition of a body from calls, notifications and statically invalid members up to length 3,
            # one request each: status (204 only for nothing-but-notifications), shape, own ids, error objects in place
            import itertools
            n = 0
            for ln in (1, 2, 3):
                for comp in itertools.product('cni', repeat=ln):
                    n += 1; h = 'b%d' % n
                    mem = [Ca(10 + i) if k == 'c' else (No if k == 'n' else Iv(20 + i if (i + n) % 2 else 0)) for i, k in enumerate(comp)]
                    add('body-%s' % ''.join(comp), [http(h, mem), D] + [hret('%s.%d' % (h, i + 1)) for i, k in enumerate(comp) if k != 'i'] + [D])
        # a member that is neither flagged invalid nor anything a handler could run (no id, no method): whatever becomes of it,
        # the members next to it are served - handlers run, calls answered under their ids
        add('void-member-%d' % v, [http('h1', [Vo, Ca(1)] if v == 0 else ([Ca(1), Vo, No] if v == 1 else [Vo, No, Ca(2), Ca(3)])), D] + [hret('h1.%d' % i) for i in ([2], [1, 3], [2, 3, 4])[v]] + [D,
                                  http('h2', [Ca(4)]), D, hret('h2.1'), D])
        add('dup-in-body-%d' % v, [http('h1', [Ca(1), Ca(1)]), D, hret('h1.1'), hret('h1.2'), D])
        add('refused-%d' % v, [http('h1', [Ca(1)], 'notpost'), http('h2', [Ca(1)], 'badtype'), http('h3', [Ca(2)], 'badcharset'), http('h4', [Ca(1)], 'garbage'), http('h5', [], 'emptyarr'), http('h7', [Ca(1)], 'trailing'), http('h8', [No, Ca(2)], 'trailing'), http('h9', [No], 'trailing'),
                               http('h6', [Ca(1)]), D, hret('h6.1'), D])
        if v == 0:
            # the media type must BE application/json (whatever the spelling, with or without a UTF-8 charset), not resemble it
            n = 0
            for kind, cts in (('badtype', ['text/plain', 'application/jsonx', 'application/json-seq', 'application/jsonl', 'application/json5', 'APPLICATION/JSON-SEQ', 'application/xml; charset=utf-8',
                                           '', 'json', 'text/json', 'application/x-json', 'application', 'application/json/x', 'xapplication/json']),
                              ('badcharset', ['application/json; charset=latin1', 'application/json; charset=utf-16', 'application/json;charset=us-ascii', 'application/json; charset="iso-8859-1"',
                                              'application/json; charset=utf-80']),
                              ('ok', ['application/json', 'application/json; charset=utf-8', 'application/json;charset=utf8', 'Application/JSON', 'application/json; charset="utf-8"', 'application/json; foo=bar',
                                      ' application/json ', 'application/json;'])):
                steps = []
                for ct in cts:
                    n += 1
                    steps.append(dict(http('c%d' % n, [Ca(1)], kind), ct=ct))
                steps.append(D)
                if kind == 'ok':
                    steps += [hret('c%d.1' % k) for k in range(n - len(cts) + 1, n + 1)] + [D]
                add('content-types-%s' % kind, steps)
        add('many-%d' % v, [http('h%d' % i, [Ca(1), Ca(2 + i % 2)]) for i in range(1, 6)] + [D] + [hret('h%d.%d' % (i, j)) for j in (2, 1) for i in (5, 3, 1, 2, 4)] + [D])
    return out

def run_check(prop, tier, seed, replay=None):
    t0 = time.time()
    work = C.scratch('bridge_' + prop)
    try:
        design = []
        if replay is None:
            for cfg in ('bridge', 'bridge2', 'bridge3'):
                design.append(C.model_check(cfg, 'MCBridge', timeout=900))
            w = C.scratch('tlcbad')
            try:
                rc, out = C.run_tlc(w, 'MCBridge', C.read_cfg('bridge_bad'), timeout=300)
                if 'Invariant OwnIds is violated' not in out:
                    raise C.ToolError('BridgeImpl sensitivity run (shared scratch buffer) did not find the expected violation')
            finally:
                shutil.rmtree(w, ignore_errors=True)
        rng = random.Random(seed * 7919 + 18)
        binp = C.build_harness('bridgefam', work)
        if replay:
            scs = [json.load(open(replay))['scenario']]
        else:
            scs = []
            n = 120 if tier == 'quick' else 2000
            for ci, cfg in enumerate(('bridge', 'bridge2', 'bridge3')):
                for bi, beh in enumerate(C.simulate(cfg, 'MCBridge', n, 40, seed * 31 + ci)):
                    scs.append(convert(beh, rng, 'C18-%s-%d' % (cfg, bi), BODIES[cfg]))
            cov_info = {}
            if tier == 'thorough':
                from . import cover
                for cfg in ('bridge', 'bridge2', 'bridge3'):
                    behs, ne, ns = cover.behaviours(cfg, 'MCBridge', rng=rng)
                    scs += [convert(b, rng, 'C18-cover-%s-%d' % (cfg, i), BODIES[cfg]) for i, b in enumerate(behs)]
                    cov_info['cover_' + cfg] = dict(edges=ne, states=ns, paths=len(behs))
            for k in range(2 if tier == 'quick' else 6):
                for d in directed(rng):
                    d = dict(d); d['name'] += '-s%d' % k; d['seed'] = rng.randrange(1 << 30); scs.append(d)
        traces, info = C.run_scenarios(binp, scs, work)
        if info['tool_trouble']:
            raise C.ToolError('; '.join(info['tool_trouble']))
        accepted, rej = C.validate_traces(traces, 'BridgeContract', {prop}, TMPL, work)
        byname = {s['name']: s for s in scs}
        violations, anomalies = C.confirm_rejections(prop, rej, lambda n: byname[n], lambda sc, w: C.run_scenarios(binp, [sc], w, nworkers=1)[0], 'BridgeContract', TMPL, work)
        sig = lambda t: ' '.join(e['ev'] + str(e.get('status', '')) for e in t if e['ev'] in ('HTTPReqB', 'HTTPReqE', 'HStart', 'HExit'))
        cov = dict(states=sum(d['states'] for d in design) or 1, transitions=sum(d['transitions'] for d in design) or 1, design_runs=design,
                   traces_validated_against_impl=accepted + len(rej), scenarios=len(scs), evaluations=len(traces), distinct_nontrivial=len({sig(t) for t in traces}),
                   rule='scenarios = BridgeImpl behaviours from tlc -simulate (2-3 concurrent HTTP requests with colliding ids, interleaved id allocation in the shared client, all handler completion orders) '
                        'replayed into a real jhttp.Bridge via httptest inside a synctest bubble + directed histories (refused requests, mixed bodies, 5 callers); distinct = distinct request/handler event sequences',
                   racy_schedules=sum(t[0].get('st_racy', 0) > 0 for t in traces), crashes=len(info['crashes']),
                   samples=[dict(scenario=scs[0]['name'], steps=scs[0]['steps'][:10], events=[e['ev'] for e in traces[0] if e['ev'] in ('HTTPReqB', 'HTTPReqE', 'HStart', 'HExit')][:30])], exhaustive=False)
        if replay is None: cov.update(cov_info)
        C.write_evidence(prop, tier, seed, 'model_checking', cov, time.time() - t0, len(violations),
                         assumptions=['handlers return when released', 'trusted: harness recorder, generic-JSON classifier of HTTP bodies, TLC'])
        for name, path, r in violations:
            print('VIOLATION property=%s replay=%s' % (prop, path))
            print('  scenario %s rejected at event %d: %s' % (name, r['at'], json.dumps(r['event'])[:300]))
        return 1 if violations else 0
    finally:
        shutil.rmtree(work, ignore_errors=True)
