"""Server family (C01 C03 C06 C07 C08 C09, server part of C02/C10): ServerImpl -> scenarios -> real Server -> ServerContract."""
import json, os, random, re, shutil, sys, time, zlib
from . import common as C

OUTS_ERR = ['err:7', 'err:-32600', 'err:-32700', 'err:plain', 'err:-32602', 'ctxerr', 'err:baddata']

def cfg_opts(cfgname):
    t = C.read_cfg(cfgname)
    def g(k, d):
        m = re.search(r'^\s*%s\s*=\s*(\S+)' % k, t, re.M)
        return m.group(1) if m else d
    return dict(conc=int(g('Conc', '1')), push=(g('AllowPush', 'FALSE') == 'TRUE'),
                recvUnblocks=(g('RecvUnblocks', 'FALSE') == 'TRUE'), basectx=('"baseend"' in t))

def tag(src):
    return 'm%d.%d' % (src[0], src[1])

def projection(st):
    """The part of a ServerImpl state that VerifSnapshot can show: queue length, reserved ids, callback ids, running."""
    if not st or 'inq' not in st: return None
    def dom(f):
        if isinstance(f, dict): return sorted(str(k) for k in f)
        return [str(i + 1) for i in range(len(f))]          # a function with domain 1..n prints as a sequence
    return dict(qlen=len(st['inq']), reserved=dom(st['used']), callbacks=dom(st['calls']), running=(st['ch'] == 'open'))

def convert(beh, rng, name, opts, steer=True):
    """Turn a ServerImpl behaviour (list of (action,args)) into a harness scenario."""
    steps = []
    nsend = 0
    for item in beh:
        act, a = item[0], item[1]
        st = item[2] if len(item) > 2 else None
        nsteps = len(steps)
        if act == 'Init': continue
        if act == 'PeerSend':
            m = a[0]; nsend += 1
            steps.append(dict(a='send', kind=m['kind'], arr=m['arr'], n=nsend,
                              mem=[dict(k=x['k'], id=x['id'], m=x['m'], notey=x['notey'], var=rng.randrange(6)) for x in m['mem']]))
        elif act == 'PeerClose': steps.append(dict(a='peerclose'))
        elif act == 'RecvError': steps.append(dict(a='recverr'))
        elif act == 'RecvClosing': steps.append(dict(a='recvclosing'))
        elif act == 'SendFails': steps.append(dict(a='sendfail'))
        elif act in ('RdProcess', 'RdFail'): steps.append(dict(a='gate', site='srv.read.lock'))
        elif act == 'DpLock': steps.append(dict(a='gate', site='srv.next.lock', soft=True))
        elif act == 'DpBarrier': steps.append(dict(a='gate', site='srv.barrier.wait'))
        elif act == 'WkAcquire': steps.append(dict(a='gate', site='srv.invoke.acquire', tag=tag(a[0])))
        elif act == 'HReturn':
            out = 'ok' if a[1] == 'ok' else rng.choice(OUTS_ERR)
            steps.append(dict(a='hret', tag=tag(a[0]), out=out))
        elif act == 'DeliverS': steps.append(dict(a='gate', site='srv.deliver.lock', tag=tag(a[0]), soft=True))
        elif act == 'SendBeginS':   # the delivery goes as far as into Channel.Send and stays there, the server's lock held
            steps.append(dict(a='holdop', kind='send'))
            steps.append(dict(a='gate', site='srv.deliver.lock', tag=tag(a[0]), soft=True))
        elif act == 'SendEndS': steps.append(dict(a='unhold'))
        elif act == 'Stop': steps.append(dict(a='stop'))
        elif act == 'CancelRequest': steps.append(dict(a='cancel', id=str(a[0])))
        elif act == 'BaseCtxEnd': steps.append(dict(a='baseend'))
        elif act == 'PushNotify': steps.append(dict(a='notify', **({'from': 'auto'} if rng.random() < 0.5 else {})))
        elif act == 'PushCall': steps.append(dict(a='callback', c=a[0], **({'from': 'auto', 'async': bool(steer)} if rng.random() < 0.5 else {})))
        elif act == 'CbCtxEnd': steps.append(dict(a='ctxend', c=a[0]))
        elif act == 'CbTimeout': steps.append(dict(a='gate', site='srv.waitcb.lock', id=str(a[0]), soft=True))
        elif act == 'WaitStatusReturn': steps.append(dict(a='waitstatus'))
        elif act == 'Restart': steps.append(dict(a='restart'))
        else:
            raise C.ToolError('unknown ServerImpl action %s' % act)
        if steer and len(steps) == nsteps + 1 and act not in ('WaitStatusReturn',):
            pj = projection(st)
            if pj is not None: steps[-1]['proj'] = pj
    if not steer:
        # keep only the external actions; internal ones are chosen by the seeded scheduler
        ext = []
        for s in steps:
            if s['a'] == 'gate':
                if rng.random() < 0.7: ext.append(dict(a='rand', n=1))
            else:
                ext.append(s)
        steps = ext
    # a few random quiescence points, then the harness tears down
    if rng.random() < 0.5:
        steps.append(dict(a='drain'))
    return dict(name=name, seed=rng.randrange(1 << 30), opts=opts, steps=steps)

def S(*mem, arr=None):
    return dict(a='send', kind='msg', arr=(len(mem) > 1 if arr is None else arr), mem=list(mem))
def call(i, m='ok', var=0): return dict(k='call', id=i, m=m, notey=False, var=var)
def note(m='ok', var=0): return dict(k='note', id=0, m=m, notey=True, var=var)
def inv(i=0, notey=False, var=0): return dict(k='inv', id=i, m='ok', notey=notey, var=var)
def reply(i, var=0): return dict(k='reply', id=i, m='ok', notey=False, var=var)
D = dict(a='drain')
def hret(t, out='ok'): return dict(a='hret', tag=t, out=out)

def directed(rng):
    """Hand-written histories: the signature histories of the findings F1..F9 and other corner cases.
    Each is run under several seeds (the drains choose the gate order)."""
    out = []
    def add(name, opts, steps):
        o = dict(conc=2, push=False, recvUnblocks=False); o.update(opts)
        m = re.search(r'-(\d+)$', name)
        if m and int(m.group(1)) % 2 == 1:
            # odd instances spell every notification with an explicit "id":null (the same thing as no id at all)
            steps = [dict(st, mem=[dict(x, var=1) if x.get('k') == 'note' and x.get('var', 0) == 0 else x for x in st['mem']]) if st.get('a') == 'send' and st.get('mem') else st
                     for st in steps]
        out.append(dict(name='dir-' + name, seed=rng.randrange(1 << 30), opts=o, steps=steps))
    for v in range(3):
        # F1: id reuse after method-not-found / reserved method
        add('f1-nf-%d' % v, {}, [S(call(1, 'nf')), D, S(call(1, 'ok')), D, hret('m2.1'), D])
        add('f1-rpc-%d' % v, {}, [S(call(1, 'rpc')), D, S(call(1, 'ok')), D, hret('m2.1'), D])
        # F7: CancelRequest then reuse while the first is still running
        add('f7-%d' % v, {}, [S(call(1)), D, dict(a='cancel', id='1'), D, S(call(1)), D, hret('m1.1', 'ctxerr'), D, hret('m2.1'), D])
        # nf sibling keeps its reservation until the batch reply
        add('nf-sibling-%d' % v, {}, [S(call(1, 'nf'), call(2)), D, S(call(1)), D, hret('m1.2'), D, hret('m2.1'), D, S(call(1)), D])
        # never-executed members (duplicate / invalid) in front of an executed call of the same batch; then its id is reused
        add('dup-then-ok-%d' % v, {}, [S(call(1), call(1), call(2)), D, hret('m1.3'), D, S(call(2)), D, hret('m2.1'), D, S(call(1)), D, hret('m3.1'), D])
        add('inv-then-ok-%d' % v, {}, [S(inv(3, False, v), call(2), inv(0, v % 2 == 0, v)), D, hret('m1.2', OUTS_ERR[v]), D, S(call(2), call(3)), D, hret('m2.1'), hret('m2.2'), D])
        # a batch whose notification is not its last member: shutdown must still wait for the notification handler
        add('stop-note-in-batch-%d' % v, {'conc': 2 + v, 'recvUnblocks': bool(v % 2)}, [S(note(), call(1)), D, hret('m1.2'), D, dict(a='stop'), dict(a='peerclose'), D, hret('m1.1'), D])
        add('eof-note-in-batch-%d' % v, {'conc': 3}, [S(note(), note(), call(1)), D, hret('m1.3'), hret('m1.2'), D, dict(a='peerclose'), D, hret('m1.1'), D])
        # a running call of a mixed batch must not hold back later messages once the batch's notification is done
        # ... wherever the notification stands in its message (the last runnable member runs on the batch's own goroutine)
        add('batch-note-last-then-call-%d' % v, {'conc': 3}, [[S(call(1), note()), S(call(1), call(2), note()), S(note(), call(1), note())][v], D, hret('m1.%d' % [2, 3, 3][v]), D] + ([hret('m1.1'), D] if v == 2 else [])
                                                              + [S(call(3)), D, S(note()), D, hret('m2.1'), hret('m3.1'), D, hret('m1.%d' % [1, 1, 2][v]), D] + ([hret('m1.2'), D] if v == 1 else []))
        # the limit holds across the stop: what is still to be handled afterwards (retained notifications, a message waiting at
        # the barrier) shares the slots with the handlers that are still running
        add('limit-across-stop-%d' % v, {'conc': 2, 'recvUnblocks': bool(v % 2)}, [S(call(1)), D, S(note()), D, S(note(), note()), D] + ([S(note()), D] if v == 2 else [])
                                                 + [[dict(a='stop'), dict(a='peerclose'), dict(a='stop')][v], D, hret('m2.1'), D, hret('m3.1'), D, hret('m3.2'), D] + ([hret('m4.1'), D] if v == 2 else []) + [hret('m1.1'), D])
        add('mixed-batch-then-call-%d' % v, {'conc': 3}, [S(note(), call(1)), D, hret('m1.1'), D, S(call(2)), D, S(note()), D, hret('m2.1'), hret('m3.1'), D, hret('m1.2'), D])
        # malformed input answered directly by the reader while a reply is about to be delivered / the server is stopped
        add('direrr-vs-deliver-%d' % v, {}, [S(call(1)), D, dict(a='send', kind=['garbage', 'empty', 'garbage'][v]), hret('m1.1'), dict(a='probe'), D])
        add('direrr-vs-stop-%d' % v, {'push': True}, [S(call(1)), D, dict(a='send', kind='garbage'), dict(a='probe'), D, hret('m1.1'), D])
        # a call cancelled while every slot is taken (in the semaphore queue or on its way there) never runs, also
        # after a slot becomes free; its siblings and later calls are unaffected (C06, C07)
        add('cancel-waiter-%d' % v, {'conc': 1}, [S(call(1)), D, S(call(2)), D, dict(a='cancel', id='2'), D, hret('m1.1', OUTS_ERR[v]), D, S(call(2)), D, hret('m3.1'), D])
        add('cancel-waiter-batch-%d' % v, {'conc': 1 + v % 2}, [S(call(1), call(2), call(3)), D, dict(a='cancel', id='3'), D, hret('m1.1'), D, hret('m1.2'), D])
        # ... and its id stays reserved until the reply of its batch is out: a reuse meanwhile is a duplicate, one afterwards is not
        add('cancel-waiter-reuse-%d' % v, {'conc': 1}, [S(call(1)), D, S(call(2), call(3)) if v != 1 else S(call(3), call(2)), D, dict(a='cancel', id='3'), D, S(call(3)), D,
                                                        hret('m1.1', OUTS_ERR[v] if v == 2 else 'ok'), D, hret('m2.%d' % (1 if v != 1 else 2)), D, S(call(3)), D, hret('m4.1'), D])
        add('cancel-waiter-gate-%d' % v, {'conc': 1}, [S(call(1)), D, S(call(2)), dict(a='gate', site='srv.read.lock'), dict(a='gate', site='srv.next.lock', soft=True),
                                                       dict(a='gate', site='srv.barrier.wait'), dict(a='cancel', id='2'), D, hret('m1.1'), D])
        # ... also when a slot becomes free between the cancellation and the moment the waiter looks at the semaphore
        add('cancel-waiter-then-free-%d' % v, {'conc': 1}, [S(call(1)), D, S(call(2)), dict(a='gate', site='srv.read.lock'), dict(a='gate', site='srv.next.lock', soft=True),
                                                            dict(a='gate', site='srv.barrier.wait'), dict(a='cancel', id='2'), hret('m1.1', OUTS_ERR[v]), D, S(call(2)), D, hret('m3.1'), D])
        add('cancel-waiter-then-free-batch-%d' % v, {'conc': 2}, [S(call(1), call(2)), D, S(call(3), call(4)), dict(a='gate', site='srv.read.lock'), dict(a='gate', site='srv.next.lock', soft=True),
                                                                  dict(a='gate', site='srv.barrier.wait'), dict(a='cancel', id=str(3 + v % 2)), hret('m1.1'), hret('m1.2'), D, hret('m2.%d' % (2 - v % 2)), D])
        # the base context (ServerOptions.NewContext) ends: running calls see it, waiting ones never run, later ones are refused
        add('baseend-%d' % v, {'conc': 1 + v % 2, 'basectx': True}, [S(call(1)), D, S(call(2), call(3)), D, dict(a='baseend'), D, hret('m1.1', 'ctxerr'), D,
                                                                    S(call(1)), D])
        # ... a notification that was waiting for a slot then never runs, and must not be waited for by anything behind it
        # NewContext is asked once per request: the members of a batch do not share a base context
        add('base-per-request-%d' % v, {'conc': 3, 'basectx': True}, [S(call(1), call(2), note()), D, S(call(3)), D, hret('m1.1'), hret('m1.2'), hret('m1.3'), hret('m2.1'), D] + ([dict(a='baseend'), D] if v else []))
        add('baseend-note-%d' % v, {'conc': 1, 'basectx': True, 'recvUnblocks': v == 2}, [S(call(1)), D, S(note()), D, dict(a='baseend'), D, hret('m1.1', 'ctxerr'), D,
                                                                 S(note()), D, S(call(2)), D] + ([dict(a='stop'), D] if v == 0 else [dict(a='peerclose'), D] if v == 1 else [dict(a='stop'), D, dict(a='restart'), S(call(1)), D])
                                                                 )
        # a reply is on its way out (the goroutine inside Send holds the server's lock): a handler that returns meanwhile
        # gives its slot up all the same, and whoever waits for one starts
        add('slot-free-while-sending-%d' % v, {'conc': 1 + v % 2}, [S(call(1)), D] + ([S(call(4)), D] if v % 2 else []) + [S(call(2)), D, S(call(3)), D, dict(a='holdop', kind='send'),
                                                                    hret('m1.1'), D, hret('m%d.1' % (3 if v % 2 else 2)), D, dict(a='unhold'), D])
        # the barrier and the limit at every concurrency setting: both messages are in before anything is released,
        # so the drain chooses which goroutine reaches the semaphore first
        for conc in (1, 2, 3):
            add('note-then-call-c%d-%d' % (conc, v), {'conc': conc}, [S(note()), S(call(1)), D, hret('m1.1'), D, hret('m2.1'), D])
            add('note-then-note-c%d-%d' % (conc, v), {'conc': conc}, [S(note()), S(note()), S(call(1), call(2)), D, hret('m1.1'), D, hret('m2.1'), D, hret('m3.1'), hret('m3.2'), D])
        # a result that arrives already encoded (json.RawMessage): passed on if it is JSON, an error (the encoder's, as a system error) for its call if it is not - the
        # rest of the message is answered as usual
        add('raw-results-%d' % v, {}, [S(call(1), call(2)), D, hret('m1.1', 'rawok'), hret('m1.2', 'rawbad'), D, S(call(1)), D, hret('m2.1', ['rawbad', 'rawok', 'rawbad'][v]), D,
                                       S(note(), call(3), call(4)), D, hret('m3.1', 'rawbad'), hret('m3.2', 'rawbad'), hret('m3.3'), D])
        # F13: a handler error that cannot be encoded must not suppress the reply of its batch
        add('baddata-%d' % v, {}, [S(call(1), call(2)), D, hret('m1.1'), hret('m1.2', 'err:baddata'), D, S(call(1)), D, hret('m2.1', 'err:baddata'), D, S(note(), call(3)), D, hret('m3.1', 'err:baddata'), hret('m3.2'), D])
        # every way a connection ends closes the channel exactly once: also a closing-class Recv error while the server runs
        add('recv-closing-%d' % v, {'recvUnblocks': bool(v % 2)}, [S(call(1)), S(note()), D, dict(a='recvclosing'), D, hret('m1.1'), hret('m2.1'), D])
        add('recv-closing-idle-%d' % v, {'push': bool(v % 2)}, [dict(a='recvclosing'), D, dict(a='stop'), D])
        # the string "1" and the number 1 are different ids: neither is a duplicate of the other, each is echoed as it was spelled
        add('string-vs-number-id-%d' % v, {'conc': 3}, [S(call(1)), D, S(call(101)), D, S(call(1), call(101)), D, hret('m1.1'), hret('m2.1'), D, S(call(101), call(1)), D,
                                                        hret('m4.1', OUTS_ERR[v]), hret('m4.2'), D, dict(a='cancel', id='1'), D])
        # ... for CancelRequest as well: the bare text cancels the number, the quoted text the string, never the other one
        add('cancel-string-vs-number-%d' % v, {'conc': 3}, [S(call(101)), D, dict(a='cancel', id='1'), D] + ([S(call(1)), D, hret('m2.1'), D, dict(a='cancel', id='1'), D] if v else [])
                                                           + [hret('m1.1'), D, S(call(1)), D, dict(a='cancel', id='"1"'), D, hret('m%d.1' % (3 if v else 2)), D])
        # a member that never ran (invalid, unknown method) bears an id all the same: when its message is answered, a later call that
        # uses that id meanwhile is not touched
        add('unrun-id-then-reuse-%d' % v, {'conc': 3}, [S(inv(1, False, v), call(2)) if v != 1 else S(call(1, 'nf'), call(2), inv(3, False, v)), D, S(call(1)), D] + ([S(call(3)), D] if v == 1 else [])
                                                        + [hret('m1.2'), D, hret('m2.1'), D] + ([hret('m3.1'), D] if v == 1 else []))
        # CancelRequest for one member of a batch reaches that member only (not its batch-mates, whatever their position)
        add('cancel-one-of-batch-%d' % v, {'conc': 4}, [S(call(1), call(2), note(), call(3)), D, dict(a='cancel', id=str(1 + v)), D, hret('m1.%d' % (1 + v + (1 if v == 2 else 0)), 'ctxerr'), D,
                                                        hret('m1.3'), D] + [hret('m1.%d' % i) for i in (1, 2, 4) if i != 1 + v + (1 if v == 2 else 0)] + [D])
        # a batch with more runnable members than slots: whenever a slot is free a waiting member starts (work conservation within a batch)
        add('batch-over-limit-%d' % v, {'conc': 2}, [S(call(1), call(2), call(3), note()), D, hret('m1.%d' % (1 + v % 2)), D, hret('m1.3'), D, hret('m1.%d' % (2 - v % 2)), hret('m1.4'), D])
        add('batch-over-limit-c1-%d' % v, {'conc': 1}, [S(call(1), call(2)), D, hret('m1.1', OUTS_ERR[v]), D, hret('m1.2'), D])
        # notifications of several array messages queued behind a running one when the server stops: still one message at a time
        add('stop-keeps-note-order-%d' % v, {'conc': 4, 'recvUnblocks': bool(v % 2)}, [S(note()), D, S(note(), call(1), arr=True), S(note(), call(2), arr=True), S(note(), arr=True), D,
                                                                                     [dict(a='stop'), dict(a='peerclose'), dict(a='stop')][v], D, hret('m1.1'), D, hret('m2.1'), D, hret('m3.1'), D, hret('m4.1'), D])
        if v == 0:
            # a limit above the number of processors of most machines is a limit all the same: 20 calls, one after the other
            # (each one settled before the next arrives and each reply out before the next return: the judge's silent steps stay
            # pinned), all twenty running at once in the middle
            steps = []
            for i in range(1, 21): steps += [S(call(i)), D]
            for k in range(1, 21): steps += [hret('m%d.1' % k), D]
            add('high-conc', {'conc': 20}, steps)
            # no limit given (0, or a negative one): the documented default, one handler per processor - and no more
            ncpu = len(os.sched_getaffinity(0))
            if ncpu <= 24:
                for cv in (0, -3):
                    steps = []
                    for i in range(1, ncpu + 2): steps += [S(call(i)), D]
                    for k in range(1, ncpu + 2): steps += [hret('m%d.1' % k), D]
                    add('default-conc%d' % cv, {'conc': cv}, steps)
        # F2/F3: records after Stop
        add('f2-%d' % v, {}, [dict(a='stop'), D, dict(a='send', kind='garbage'), D])
        add('f2e-%d' % v, {}, [dict(a='stop'), D, dict(a='send', kind='empty'), D])
        add('f3-%d' % v, {}, [dict(a='stop'), D, S(call(1)), D])
        add('f23-race-%d' % v, {}, [dict(a='send', kind=['garbage', 'empty', 'msg'][v], arr=False, mem=[call(1)]), dict(a='stop'), D])
        # F4: invalid id-less member queued behind a running notification, then Stop
        add('f4-%d' % v, {}, [S(note()), D, S(note()), S(inv(0, True, v)), D, dict(a='stop'), D, hret('m1.1'), D])
        # notification handler returning errors of every class; slot accounting
        add('note-err-%d' % v, {'conc': 1 + v % 2}, [S(note()), D, hret('m1.1', OUTS_ERR[v]), D, S(note()), D, hret('m2.1', OUTS_ERR[v + 3]), D,
                                                     S(call(1)), D, hret('m3.1'), D])
        add('note-err-batch-%d' % v, {}, [S(note(), call(1)), D, hret('m1.1', 'err:-32600'), hret('m1.2'), D, S(note(), note()), D,
                                          hret('m2.1', 'err:-32700'), hret('m2.2', 'err:-32600'), D])
        # barrier: call after notification, batch of calls after notification
        add('barrier-call-%d' % v, {'conc': 2 + v}, [S(note()), D, S(call(1)), D, S(call(2), call(3)), D, hret('m1.1'), D, hret('m2.1'), D, hret('m3.1'), hret('m3.2'), D])
        # cancellation of a semaphore waiter
        add('sem-waiter-%d' % v, {'conc': 1}, [S(call(1), call(2)), D, dict(a='cancel', id='2'), D, dict(a='cancel', id='1'), D, hret('m1.1', 'ctxerr'), D, hret('m1.2'), D])
        # stop with a batch parked at the barrier and calls running
        add('stop-barrier-%d' % v, {}, [S(note()), D, S(call(1), note()), S(call(2)), S(note()), D, dict(a='stop'), D, hret('m1.1'), D])
        # peer close with data in flight
        add('eof-%d' % v, {}, [S(call(1)), S(note()), dict(a='peerclose'), D, hret('m1.1'), D])
        add('recverr-%d' % v, {}, [S(call(1)), D, dict(a='recverr'), D, hret('m1.1'), D])
        add('sendfail-%d' % v, {}, [S(call(1)), D, dict(a='sendfail'), hret('m1.1'), D, S(call(2)), D, hret('m2.1'), D])
        # the channel's Close complains (after closing): the status still says how the connection ended - stopped, closed by
        # the peer, or the channel's Recv error - and the server can be started again
        add('closefail-%d' % v, {'recvUnblocks': True}, [dict(a='closefail'), S(call(1)), D, [dict(a='stop'), dict(a='peerclose'), dict(a='recverr')][v], D, hret('m1.1'), D,
                                                         dict(a='restart'), S(call(1)), D, hret('m2.1'), D])
        # a reply that could not be sent (a transient failure: the server goes on) has ended its call all the same: the id is free
        add('sendfail-reuse-%d' % v, {}, [S(call(1)) if v != 1 else S(call(1), call(2)), D, dict(a='sendfail'), hret('m1.1'), D] + ([hret('m1.2'), D] if v == 1 else [])
                                         + ([dict(a='sendheal')] if v != 2 else []) + [S(call(1)), D, hret('m2.1'), D, S(call(1), note()), D, hret('m3.1'), hret('m3.2'), D])
        # Stop arrives while the reader is between taking a message in and waking the dispatcher (held at its log line there)
        add('stop-at-enqueue-%d' % v, {'recvUnblocks': True}, [dict(a='holdlog', kind='Received request batch'), [S(call(1)), S(note()), S(call(1), note())][v], D, dict(a='stop'), D,
                                                               dict(a='unhold'), D, dict(a='restart'), S(call(2)), D, hret('m2.1'), D])
        add('restart-%d' % v, {'recvUnblocks': True}, [S(call(1)), D, dict(a='stop'), D, hret('m1.1'), D, dict(a='restart'), S(call(1)), D, hret('m2.1'), D])
        add('eofdata-%d' % v, {}, [dict(a='recveofdata', mem=[note() if v % 2 else call(1)]), D])
        # push: late / duplicate / unknown replies, callback from a notification handler behind the barrier
        P = {'push': True}
        # ... also when the late reply is only recognisably one (no version, another version, an unknown member)
        add('late-sloppy-%d' % v, P, [dict(a='callback', c='cbA'), D, dict(a='ctxend', c='cbA'), D, S(reply(1, v + 3)), D, S(call(1)), D, hret('m2.1'), D,
                                      S(reply(1, v + 2), reply(9, v + 3)), D])
        add('intime-sloppy-%d' % v, P, [dict(a='callback', c='cbA'), D, S(reply(1, v + 3)), D, S(reply(1, v + 3)), D])
        add('f9-late-%d' % v, P, [S(call(1)), D, dict(a='callback', c='cbA', **{'from': 'm1.1'}), D, dict(a='ctxend', c='cbA'), D,
                                  S(reply(1, v)), D, hret('m1.1'), D])
        add('cb-dup-%d' % v, P, [dict(a='callback', c='cbA'), D, S(reply(1, v), reply(1, v + 1)), D, S(reply(1)), S(reply(7)), D])
        # a handler that waits for the reply to its own callback is still executing: its slot is not for anybody else
        add('cb-holds-slot-%d' % v, {'push': True, 'conc': 1 + v % 2}, [S(call(1)), D] + ([S(call(3)), D] if v % 2 else []) + [dict(a='callback', c='cbA', **{'from': 'm1.1'}), D,
                                                                      S(call(2)), D, S(note()), D, S(reply(1, v)), D, hret('m1.1'), D, hret('m%d.1' % (2 + v % 2)), D])
        # a callback whose request could not be sent is over; the next one is a callback of its own (its reply reaches it, whatever
        # the watcher of the failed one does afterwards)
        add('cb-sendfail-then-next-%d' % v, P, [dict(a='sendfail'), dict(a='callback', c='cbA', noctx=bool(v % 2)), dict(a='sendheal'), dict(a='callback', c='cbB'), D,
                                               S(reply(1, v)), S(reply(2, v)), D, dict(a='callback', c='cbC'), D, S(reply(2, v), reply(3, v)), D])
        # a push is inside Send (held there) when a reply becomes ready, another push is issued, the server is stopped: one at a time
        add('push-held-in-send-%d' % v, {'push': True, 'conc': 3}, [S(call(1)), S(call(2)), S(call(3)), D, dict(a='holdop', kind='send'),
                                                                  dict(a='notify', **{'from': 'm2.1'}) if v != 1 else dict(a='callback', c='cbA', **{'from': 'm2.1'}), D, hret('m1.1'), D]
                                                                 + [[dict(a='notify', **{'from': 'm3.1'}), D], [dict(a='notify', **{'from': 'm3.1'}), D], [dict(a='stop'), D]][v]
                                                                 + [dict(a='unhold'), D] + ([S(reply(1))] if v == 1 else []) + [hret('m2.1'), hret('m3.1'), D])
        # the context of a callback ends just after the reader has handed it its reply (at the reader's log line there): the reply it is
        add('cb-reply-then-ctxend-%d' % v, P, [dict(a='callback', c='cbA'), D, dict(a='logcancel', kind='Received response for callback', c='cbA'), S(reply(1, v)), D,
                                              dict(a='callback', c='cbC'), D, S(reply(2, v + 1)), D])
        # a reply whose id is the string spelling of an outstanding callback's number is a reply to nobody: dropped, the callback waits on
        add('cb-reply-string-id-%d' % v, P, [dict(a='callback', c='cbA'), D, S(reply(101, v)), D] + ([S(reply(101, v + 1), call(1)), D, hret('m2.1'), D] if v else []) + [S(reply(1, v)), D])
        add('cb-note-%d' % v, P, [S(note()), D, dict(a='callback', c='cbA', **{'from': 'm1.1'}), S(call(1)), D, S(reply(1, v)), D, hret('m1.1'), D, hret('m2.1'), D])
        add('cb-two-%d' % v, P, [dict(a='callback', c='cbA'), dict(a='callback', c='cbB'), D, S(reply(2, v)), D, S(reply(1)), D])
        add('cb-stop-%d' % v, P, [dict(a='callback', c='cbA'), D, dict(a='stop'), D, dict(a='callback', c='cbB'), dict(a='notify'), D])
        add('cb-restart-%d' % v, {'push': True, 'recvUnblocks': True}, [dict(a='callback', c='cbA'), D, dict(a='stop'), dict(a='gate', site='srv.read.lock'),
                                   dict(a='gate', site='srv.next.lock'), dict(a='restart'), dict(a='callback', c='cbB'), D, S(reply(1 + v % 2, v)), D])
        # callbacks issued with a context that can never end (context.Background()): only a reply or the stop ends them
        add('cb-noctx-stop-%d' % v, P, [dict(a='callback', c='cbA', noctx=True), D, dict(a='stop'), D])
        add('cb-noctx-eof-%d' % v, P, [dict(a='callback', c='cbA', noctx=True), dict(a='callback', c='cbB'), D, dict(a='peerclose'), D])
        # a push whose Send fails, issued with a context that can never end: nothing of it may outlive the server
        add('cb-noctx-sendfail-%d' % v, P, [dict(a='sendfail'), dict(a='callback', c='cbA', noctx=True), dict(a='notify'), D, [dict(a='stop'), dict(a='peerclose'), dict(a='recverr')][v], D])
        add('cb-noctx-sendfail-reply-%d' % v, P, [S(call(1)), D, dict(a='sendfail'), dict(a='callback', c='cbA', noctx=True), D, S(reply(1, v)), D, hret('m1.1'), D, dict(a='stop'), D])
        # pushes issued with a context that has already ended: Notify transmits all the same, Callback transmits and then reports the context's error
        add('push-ended-ctx-%d' % v, P, [S(call(1)), D, dict(a='endedpush'), dict(a='notify'), dict(a='callback', c='cbA'), D, dict(a='notify', **({'from': 'm1.1'} if v else {})), dict(a='callback', c='cbB'), D,
                                         S(reply(1, v)), D, hret('m1.1'), D])
        add('cb-noctx-reply-%d' % v, P, [dict(a='callback', c='cbA', noctx=True), D, S(reply(1, v)), D, dict(a='callback', c='cbB', noctx=True), D, dict(a='recverr'), D])
        # ... wherever the reply stands in its batch
        add('cb-mixed-callfirst-%d' % v, P, [dict(a='callback', c='cbA'), D, S(call(1), reply(1, v)), D, hret('m1.1'), D])
        add('cb-mixed-notefirst-%d' % v, P, [dict(a='callback', c='cbA'), D, S(note(), reply(1, v), call(2)), D, hret('m1.1'), hret('m1.3'), D])
        add('cb-mixed-%d' % v, P, [dict(a='callback', c='cbA'), D, S(reply(1, v), call(1)), D, hret('m1.2'), D])
        add('nopush-%d' % v, {}, [dict(a='callback', c='cbA'), dict(a='notify'), D, S(reply(1, v)), D])
        # ... unconditionally: also once the connection has ended, and whatever the parameters are
        add('nopush-ended-%d' % v, {'recvUnblocks': bool(v % 2)}, [S(call(1)), D, [dict(a='stop'), dict(a='peerclose'), dict(a='recverr')][v], D, dict(a='callback', c='cbA'), dict(a='notify'), D,
                                                                  hret('m1.1'), D, dict(a='callback', c='cbB'), dict(a='notify'), D])
        add('nopush-badparams-%d' % v, {}, [dict(a='badpush'), dict(a='callback', c='cbA'), dict(a='notify'), D, dict(a='stop'), D, dict(a='callback', c='cbB'), dict(a='notify'), D])
        add('invalid-mix-%d' % v, {'push': bool(v % 2)}, [S(call(1), inv(2, False, v), inv(0, True, v), inv(0, False, v), note('nf')), D, hret('m1.1'), D,
                                                          S(inv(0, False, v)), S(inv(3, False, v + 1)), D])
        add('info-%d' % v, {'conc': 1}, [S(call(1)), D, S(call(2, 'info')), D, hret('m1.1'), D])
        # the built-in method is a request like any other: it waits for the notifications before it (alone, in an array, twice)
        add('note-then-info-%d' % v, {'conc': 2 + v}, [S(note()), D, [S(call(1, 'info')), S(call(1, 'info'), call(2, 'info')), S(call(1, 'info'), call(2))][v], D, hret('m1.1'), D] + ([hret('m2.2'), D] if v == 2 else []))
    return out

FAMILY = {
    # property: (quick design cfgs, thorough design cfgs, simulate cfgs, depth)
    'C01': (['srv_c01'], ['srv_c01', 'srv_c03', 'srv_send'], ['srv_c01', 'srv_c07', 'srv_c09', 'srv_send'], 45),
    'C03': (['srv_c03q'], ['srv_c03', 'srv_c03c1', 'srv_send'], ['srv_c03', 'srv_c06', 'srv_c03c1', 'srv_c06c3', 'srv_send'], 45),
    'C06': (['srv_c06', 'srv_send'], ['srv_c06', 'srv_c03', 'srv_c07b', 'srv_c06c3', 'srv_send', 'srv_send2'], ['srv_c06', 'srv_c03', 'srv_c07b', 'srv_c06c3', 'srv_c03c1', 'srv_send', 'srv_send2'], 45),
    'C07': (['srv_c07q'], ['srv_c07', 'srv_c03', 'srv_c07b', 'srv_send2'], ['srv_c07', 'srv_c06', 'srv_c07b', 'srv_send2'], 45),
    'C08': (['srv_c08q', 'srv_live'], ['srv_c08', 'srv_c08u', 'srv_live'], ['srv_c08', 'srv_c08u', 'srv_c08r'], 50),
    'C09': (['srv_c09', 'srv_c09n'], ['srv_c09', 'srv_c09b', 'srv_c09r', 'srv_c09n'], ['srv_c09', 'srv_c09b', 'srv_c09r', 'srv_c09n'], 45),
}

# model sensitivity: with the repair of a finding switched off TLC must find the violation (else exit 2)
REGRESS = {'C07': [('regress_F1', 'C07_Reservations'), ('regress_F7', 'C07_Reservations')],
           'C08': [('regress_F23', 'NoCrash'), ('regress_F4', 'NoCrash'), ('regress_F14', 'C08_NoStrandedWatcher')],
           'C09': [('regress_F9', 'C09_NoAnswerToLateReply')]}

def must_fail(cfg, inv, module='MCServer'):
    w = C.scratch('tlcbad')
    try:
        rc, out = C.run_tlc(w, module, C.read_cfg(cfg), timeout=600)
        if ('Invariant %s is violated' % inv) not in out:
            raise C.ToolError('sensitivity run %s did not produce the expected violation of %s:\n%s' % (cfg, inv, out[-1500:]))
    finally:
        shutil.rmtree(w, ignore_errors=True)

# thorough tier: a transition cover of the exhaustively explored state graph of these configurations is replayed as well
COVER = {'C01': 'srv_c01', 'C09': 'srv_c09r'}

def cover_scenarios(prop, seed):
    from . import cover
    cfg = COVER.get(prop)
    if not cfg: return [], {}
    rng = random.Random(seed * 31 + 7)
    behs, nedges, nstates = cover.behaviours(cfg, 'MCServer', want_vars=('inq', 'used', 'calls', 'ch'), rng=rng)
    opts = cfg_opts(cfg)
    scs = [convert(b, rng, '%s-cover-%s-%d' % (prop, cfg, i), dict(opts), steer=True) for i, b in enumerate(behs)]
    return scs, dict(cover_cfg=cfg, cover_edges=nedges, cover_states=nstates, cover_paths=len(scs))

def add_probes(sc, rng, n=2):
    """Insert in-operation probes: a goroutine is parked inside Channel.Send (or Close) while everything else is let loose."""
    sc = dict(sc); steps = list(sc['steps'])
    firsts = [i for i, s in enumerate(steps) if s['a'] in ('send', 'op', 'peer', 'callback', 'notify')]
    if not firsts:
        return sc
    for _ in range(n):
        pos = rng.randrange(firsts[0] + 1, len(steps) + 1)
        steps.insert(pos, dict(a='probe', kind='close' if rng.random() < 0.15 else 'send'))
    sc['steps'] = steps; sc['name'] += '-p'
    return sc

def contract_part(prop, tier, seed, work, replay_scenario=None):
    """The guards of ServerContract that carry the tag of a property whose own check is a table (C02: an invalid, unknown
    or reply-shaped member never runs and gets the error of its class - also inside the histories of the server family:
    under concurrency, across restarts, next to callbacks).  Returns (violations, info)."""
    w = os.path.join(work, 'cp'); os.makedirs(w, exist_ok=True)
    binp = C.build_harness('srvfam', w)
    if replay_scenario is not None:
        scs = [replay_scenario]
    else:
        scs = gen_scenarios('C01', 'quick', seed + 3, 40 if tier == 'quick' else 600)
        for sc in scs: sc['name'] = prop + '~' + sc['name']
    traces, info = C.run_scenarios(binp, scs, w)
    if info['tool_trouble']:
        raise C.ToolError('; '.join(info['tool_trouble']))
    tmpl = open(os.path.join(C.SPEC, 'cfg', 'trace_server.cfg.tmpl')).read()
    accepted, rej = C.validate_traces(traces, 'ServerContract', {prop}, tmpl, w)
    byname = {s['name']: s for s in scs}
    violations, anomalies = C.confirm_rejections(prop, rej, lambda n: byname[n], lambda sc, ww: C.run_scenarios(binp, [sc], ww, nworkers=1)[0], 'ServerContract', tmpl, w,
                                                 extra=lambda name: dict(family='srv'))
    return violations, dict(contract_scenarios=len(scs), contract_traces_validated=accepted + len(rej))


def gen_scenarios(prop, tier, seed, nsim):
    rng = random.Random(seed * 7919 + zlib.crc32(prop.encode()) % 1000)
    _, _, simcfgs, depth = FAMILY[prop]
    if tier != 'quick':
        # every feature at once (simulation only): cross-feature behaviours; the ending of the base context
        # (ServerOptions.NewContext) only where it is judged (C06, C07: its effect on notifications is a grey zone of C01/C08)
        simcfgs = simcfgs + (['srv_all', 'srv_allb'] if prop in ('C06', 'C07') else ['srv_all'])
    scs = []
    for ci, cfg in enumerate(simcfgs):
        opts = cfg_opts(cfg)
        behs = C.simulate_states(cfg, 'MCServer', nsim // len(simcfgs) + 1, depth, seed * 31 + ci)
        for bi, beh in enumerate(behs):
            steer = (bi % 4 != 3)
            scs.append(convert(beh, rng, '%s-%s-%d%s' % (prop, cfg, bi, '' if steer else '-r'), dict(opts), steer=steer))
    nd = 2 if tier == 'quick' else 6
    for k in range(nd):
        for d in directed(rng):
            d = dict(d); d['name'] += '-s%d' % k; d['seed'] = rng.randrange(1 << 30)
            scs.append(d)
    if prop == 'C01':
        # the harness channel is safe for one sender only (harness/vh/vchan.go): with a goroutine parked inside Send, a reply
        # written by anybody else at that moment shows up as a duplicated / missing response
        # (only scenarios that are not steered step by step: a probe lets everything loose, the model's state would no longer apply)
        free = [i for i, sc in enumerate(scs) if not any('proj' in st for st in sc['steps'])]
        for i in free[::2]:
            scs[i] = add_probes(scs[i], rng)
    return scs

SERVER_EVENTS = None  # all events are passed; the contract ignores the channel brackets

def signature(tr):
    """Abstract signature of a trace, for matching known findings: the sequence of event kinds."""
    return ' '.join(e['ev'] for e in tr if e['ev'] not in ('SB', 'SE', 'RB', 'RE', 'CB', 'CE', 'Quiescent'))

def run_check(prop, tier, seed, replay=None):
    t0 = time.time()
    work = C.scratch('srv_' + prop)
    try:
        quick_cfgs, thorough_cfgs, simcfgs, depth = FAMILY[prop]
        design = []
        if replay is None:
            for cfg in (quick_cfgs if tier == 'quick' else thorough_cfgs):
                design.append(C.model_check(cfg, 'MCServer', timeout=1500))
            for cfg, inv in REGRESS.get(prop, []):
                must_fail(cfg, inv)
        binp = C.build_harness('srvfam', work)
        if replay is not None:
            scs = [json.load(open(replay))['scenario']]
        else:
            scs = gen_scenarios(prop, tier, seed, 240 if tier == 'quick' else 3000)
            cov_info = {}
            if tier == 'thorough':
                cs, cov_info = cover_scenarios(prop, seed)
                scs += cs
        traces, info = C.run_scenarios(binp, scs, work)
        if info['tool_trouble']:
            raise C.ToolError('; '.join(info['tool_trouble']))
        tmpl = open(os.path.join(C.SPEC, 'cfg', 'trace_server.cfg.tmpl')).read()
        accepted, rej = C.validate_traces(traces, 'ServerContract', {prop}, tmpl, work)
        byname = {s['name']: s for s in scs}
        violations, anomalies = C.confirm_rejections(prop, rej, lambda n: byname[n], lambda sc, w: C.run_scenarios(binp, [sc], w, nworkers=1)[0], 'ServerContract', tmpl, work)
        hook_info = {}
        if replay is None and prop in ('C01', 'C03', 'C08'):
            from . import hooks_family
            hook_info, hv = hooks_family.validate(prop, work)
            violations += hv
        stress_info = {}
        if replay is None and prop == 'C06':
            # windows no hook marks (between the grant of a slot and the handler's start) cannot be steered, only tried often
            import subprocess
            so = os.path.join(work, 'stress.json')
            env = dict(os.environ, VERIF_STRESS_MS='4000' if tier == 'quick' else '40000', VERIF_SEED=str(seed), VERIF_OUT=so)
            p = subprocess.run(['timeout', '600', binp, '-test.run', '^TestStressSlots$', '-test.timeout', '0'], cwd=work, env=env, capture_output=True, text=True)
            if p.returncode != 0 or not os.path.exists(so):
                raise C.ToolError('stress run failed (rc=%s): %s' % (p.returncode, (p.stdout + p.stderr)[-1500:]))
            sr = json.load(open(so))
            stress_info = dict(stress_calls_with_racing_cancel=sr['iterations'], stress_cancelled_before_running=sr['cancelled_before_running'])
            for k, why in enumerate(sr.get('violations') or []):
                ev = dict(ev='Stress', what=why)
                path = C.save_replay(prop, 'stress-slots-%d' % k, dict(property=prop, scenario=dict(name='stress-slots', steps=[]), rejected_at=0, event=ev, trace=[ev]))
                violations.append(('stress-slots', path, dict(at=0, event=ev)))
        racy = sum(t[0].get('st_racy', 0) > 0 for t in traces)
        div = sum(t[0].get('st_diverged', 0) for t in traces)
        distinct = len({signature(t) for t in traces})
        cov = dict(states=sum(d['states'] for d in design) or 1, transitions=sum(d['transitions'] for d in design) or 1,
                   design_runs=design, must_fail_runs=[c for c, _ in REGRESS.get(prop, [])], traces_validated_against_impl=accepted + len(rej),
                   scenarios=len(scs), distinct_nontrivial=distinct, evaluations=len(traces),
                   rule='scenarios = ServerImpl behaviours from tlc -simulate (external actions performed, internal actions replayed by releasing the matching gate) '
                        '+ directed histories; non-trivial/distinct = distinct sequences of observable event kinds',
                   racy_schedules=racy, steering_divergences=div, state_projections_compared=sum(t[0].get('st_projok', 0) for t in traces), conformance_drift=sum(t[0].get('st_drift', 0) for t in traces), crashes=len(info['crashes']),
                   samples=[dict(scenario=scs[0]['name'], steps=scs[0]['steps'][:12], events=[e['ev'] for e in traces[0]][:40])],
                   exhaustive=False)
        cov.update(hook_info)
        cov.update(stress_info)
        if replay is None and cov_info:
            cov.update(cov_info)
            cov['cover_paths_diverged'] = sum(1 for t in traces if '-cover-' in t[0]['scn'] and t[0].get('st_diverged', 0) > 0)
        C.write_evidence(prop, tier, seed, 'model_checking', cov, time.time() - t0, len(violations),
                         assumptions=['handlers return when the harness releases them', 'trusted: harness recorder, vchan classifier, TLC'])
        for name, path, r in violations:
            print('VIOLATION property=%s replay=%s' % (prop, path))
            print('  scenario %s rejected at event %d: %s' % (name, r['at'], json.dumps(r['event'])[:300]))
        return 1 if violations else 0
    finally:
        if not os.environ.get('VERIF_KEEP'): shutil.rmtree(work, ignore_errors=True)
