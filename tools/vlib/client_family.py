"""Client family (C04 C05): ClientImpl -> scenarios -> real Client against a scripted peer -> ClientContract."""
import json, os, random, re, shutil, time, zlib
from . import common as C

OPS = {
  'OpsCall2': {'o1': ('call', [False]), 'o2': ('call', [False])},
  'OpsBatch': {'o1': ('call', [False]), 'o2': ('batch', [False, True, False])},
  'OpsMixed': {'o1': ('call', [False]), 'o2': ('notify', [True]), 'o3': ('batch', [True, False])},
  'OpsOne':   {'o1': ('batch', [False, False])},
  'OpsThree': {'o1': ('call', [False]), 'o2': ('batch', [False, False]), 'o3': ('call', [False])},
}

CTX_KINDS = ['', '', 'deadline', 'cancelcause', 'deadlinecause', 'childofcause']
CB_OUTS = ['ok', 'ok', 'err:7', 'err:plain', 'err:baddata', 'badresult', 'panic']

def cfg_info(cfgname):
    t = C.read_cfg(cfgname)
    ops = re.search(r'Ops <- (\w+)', t).group(1)
    return OPS[ops], dict(recvUnblocks=('RecvUnblocks = TRUE' in t), callback=('HasCallback = TRUE' in t))

def projection(st):
    """The part of a ClientImpl state that Client.VerifSnapshot shows: next id, ids awaiting a reply, stopped."""
    if not st or 'slot' not in st: return None
    sl = st['slot']
    items = sl.items() if isinstance(sl, dict) else [(i + 1, v) for i, v in enumerate(sl)]      # a function on 1..n prints as a sequence
    return dict(nextid=int(st['nextID']), pending=sorted(str(k) for k, v in items if v['st'] == 'pending'), stopped=(st['ch'] != 'open'))

def convert(beh, rng, name, ops, opts, steer=True):
    steps = []
    for item in beh:
        act, a = item[0], item[1]
        state = item[2] if len(item) > 2 else None
        nsteps = len(steps)
        if act == 'Init': continue
        if act == 'StartOp':
            kind, specs = ops[a[0]]
            if kind == 'call' and rng.random() < 0.25: kind = 'callresult'
            st = dict(a='op', op=a[0], kind=kind, specs=specs)
            ck = rng.choice(CTX_KINDS)
            if ck: st['ctxkind'] = ck
            steps.append(st)
        elif act == 'OpReq': steps.append(dict(a='gate', site='cli.req.lock', op=a[0]))
        elif act == 'OpSend': steps.append(dict(a='gate', site='cli.send.lock', op=a[0]))
        elif act == 'CtxEnd': steps.append(dict(a='ctxend', op=a[0]))
        elif act == 'PeerDeliver':
            items = [dict(t=x['t'], id=x['id'], err=(rng.random() < 0.3)) for x in a[0]]
            steps.append(dict(a='peer', items=items, arr=(len(items) > 1 or rng.random() < 0.3)))
        elif act == 'PeerGarbage': steps.append(dict(a='garbage'))
        elif act == 'PeerClose': steps.append(dict(a='peerclose'))
        elif act == 'RecvError': steps.append(dict(a='recverr'))
        elif act == 'SendFails': steps.append(dict(a='sendfail'))
        elif act == 'SendHeals': steps.append(dict(a='sendheal'))
        elif act == 'RdFail': steps.append(dict(a='gate', site='cli.fail.lock'))
        elif act == 'Close': steps.append(dict(a='close'))
        elif act == 'CloseReturn': steps.append(dict(a='closereturn'))
        elif act == 'DeliverMsg': steps.append(dict(a='gate', site='cli.deliver.lock', m=a[0]))
        elif act == 'WatcherFire': steps.append(dict(a='gate', site='cli.waitcomplete.lock', id=str(a[0]), soft=True))
        elif act == 'CbReturn': steps.append(dict(a='cbret', id=str(a[0]), out=rng.choice(CB_OUTS)))
        elif act == 'CbReply': steps.append(dict(a='gate', site='cli.cbreply.lock', id=str(a[0])))
        else: raise C.ToolError('unknown ClientImpl action %s' % act)
        if steer and len(steps) == nsteps + 1 and act not in ('CloseReturn',):
            pj = projection(state)
            if pj is not None: steps[-1]['proj'] = pj
    if not steer:
        ext = []
        for s in steps:
            if s['a'] == 'gate':
                if rng.random() < 0.7: ext.append(dict(a='rand', n=1))
            else: ext.append(s)
        steps = ext
    if rng.random() < 0.5: steps.append(dict(a='drain'))
    return dict(name=name, seed=rng.randrange(1 << 30), opts=opts, steps=steps)

D = dict(a='drain')
def op(o, kind='call', specs=None, ctxkind=None):
    d = dict(a='op', op=o, kind=kind, specs=specs or [kind == 'notify'])
    if ctxkind: d['ctxkind'] = ctxkind
    return d
def peer(*items, arr=None):
    its = [dict(t=t, id=i, err=e) for (t, i, e) in items]
    return dict(a='peer', items=its, arr=(len(its) > 1 if arr is None else arr))
R = lambda i, e=False: ('reply', i, e)
B = lambda i: ('bad', i, False)

def directed(rng, probes=False):
    out = []
    def add(name, opts, steps):
        if not probes and any(st.get('a') == 'probe' for st in steps):
            return      # in-operation probes issue untagged traffic of their own: for the channel-discipline judge only
        o = dict(recvUnblocks=False, callback=False); o.update(opts)
        out.append(dict(name='dir-' + name, seed=rng.randrange(1 << 30), opts=o, steps=steps))
    for v in range(3):
        e = bool(v % 2)
        add('swap-%d' % v, {}, [op('o1'), op('o2'), D, peer(R(2, e)), D, peer(R(1)), D])
        add('array-%d' % v, {}, [op('o1'), op('o2', 'batch', [False, True, False]), D, peer(R(3, e), R(1), R(2)), D])
        # the members of a batch are answered one record at a time, in every order: each completes with its own reply, nothing else ends
        add('batch-split-replies-%d' % v, {}, [op('o1', 'batch', [False, True, False, False]), D, peer(R([1, 2, 3][v], e)), D, peer(R([3, 1, 2][v])), D, peer(R([2, 3, 1][v], not e)), D])
        add('dup-%d' % v, {}, [op('o1'), op('o2'), D, peer(R(1), R(1, True)), peer(R(1)), D, peer(R(2), R(9)), D])
        add('bad-live-%d' % v, {}, [op('o1'), op('o2', 'batch', [False, True, False]), D, peer(B(1 + v), R(9)), D, peer(R(1), R(2), R(3)), D])
        add('bad-batch-%d' % v, {}, [op('o1', 'batch', [False, True, False, False]), D, peer(R(3), R(9), B(2), R(1)), D])
        add('srvreq-%d' % v, {'callback': True}, [op('o1'), D, peer(('note', 0, False), ('call', 7, False), R(1, e)), D, dict(a='cbret', id='7'), D])
        # whatever a callback handler returns (errors that cannot be encoded, results that cannot, a panic), one complete reply goes out
        add('cb-outcomes-%d' % v, {'callback': True}, [peer(('call', 7, False)), peer(('call', 8, False)), D, dict(a='cbret', id='7', out=['err:baddata', 'badresult', 'panic'][v]), D,
                                                       dict(a='cbret', id='8', out=['err:7', 'err:plain', 'err:baddata'][v]), D, op('o1'), D, peer(R(1)), D])
        # a server-initiated call that fails validation and carries the id of a pending request of ours is not that request's reply
        add('badcall-collide-%d' % v, {'callback': bool(v % 2)}, [op('o1'), op('o2', 'batch', [False, False]), D, peer(('badcall', 1 + v, False)), D, peer(('badcall', 2, False), R(3, e)), D,
                                                                 peer(R(1), R(2)), D] + ([dict(a='cbret', id=str(1 + v)), dict(a='cbret', id='2'), D] if v % 2 else []))
        # replies that spell out the member they do not use as null
        add('null-members-%d' % v, {}, [op('o1'), op('o2', 'batch', [False, False]), D, peer(('replynull', 1 + v, False)), D, peer(('replynull', [2, 3, 1][v], False), R([3, 1, 2][v], e)), D])
        # the id "1" (a string) is not the id 1 (a number)
        add('string-id-%d' % v, {}, [op('o1'), op('o2', 'batch', [False, False]), D, peer(('strid', 1, False)), D, peer(('strid', 2 + v % 2, False), R(3, e)), D, peer(R(2), R(1)), D])
        # a batch of nothing (an empty, or a nil, list of specs) puts nothing on the channel
        add('empty-batch-%d' % v, {}, [op('o1'), dict(a='op', op='o2', kind=['emptybatch', 'nilbatch', 'emptybatch'][v], specs=[]), D, peer(R(1, e)), D,
                                       dict(a='op', op='o3', kind=['nilbatch', 'emptybatch', 'emptybatch'][v], specs=[]), op('o4', 'notify'), D])
        add('cancel-%d' % v, {}, [op('o1'), op('o2'), D, dict(a='ctxend', op='o1'), D, peer(R(1)), peer(R(2, e)), D])
        add('cancel-race-%d' % v, {}, [op('o1'), D, dict(a='ctxend', op='o1'), peer(R(1)), D])
        add('deadline-%d' % v, {}, [op('o1', ctxkind='deadline'), op('o2', 'batch', [False, False]), D, dict(a='ctxend', op='o1'), D, peer(R(2), R(3)), D])
        add('cancel-cause-%d' % v, {}, [op('o1', ctxkind=['cancelcause', 'deadlinecause', 'childofcause'][v]), op('o2', 'batch', [False, False], ctxkind=['childofcause', 'cancelcause', 'deadlinecause'][v]), D,
                                        dict(a='ctxend', op='o1'), D, dict(a='ctxend', op='o2'), D, peer(R(1), R(2), R(3)), D])
        add('cancel-before-send-%d' % v, {}, [op('o1'), dict(a='ctxend', op='o1'), D])
        add('close-pending-%d' % v, {'recvUnblocks': e}, [op('o1'), op('o2', 'batch', [False, True]), D, dict(a='close'), D, op('o3'), op('o4', 'notify'), D])
        add('eof-pending-%d' % v, {}, [op('o1'), D, dict(a='peerclose'), D, op('o2'), D])
        add('recverr-%d' % v, {}, [op('o1'), D, dict(a='recverr'), D, op('o2', 'notify'), D])
        add('recvclosing-%d' % v, {}, [op('o1'), D, dict(a='recvclosing'), D, op('o2', 'notify'), D])
        add('garbage-%d' % v, {}, [op('o1'), D, dict(a='garbage'), D, op('o2'), D])
        add('sendfail-%d' % v, {}, [dict(a='sendfail'), op('o1'), op('o2', 'batch', [False, True]), op('o3', 'notify'), D])
        # a transient send failure: the failed operation leaves nothing behind, later ones work, ids stay unique
        add('sendfail-transient-%d' % v, {}, [op('o1'), D, dict(a='sendfail'), op('o2', 'batch', [False, False]), D, dict(a='sendheal'), op('o3'), op('o4', 'batch', [False, True, False]), D,
                                              peer(R(1), R(2), R(3)), D, peer(R(4), R(5), R(6)), D])
        # ids allocated to two operations alternately; the one holding the latest id fails to send; the next id must still be fresh
        G = lambda site, o: dict(a='gate', site=site, op=o)
        add('id-interleave-sendfail-%d' % v, {}, [op('o1', 'batch', [False, False]), op('o2'), G('cli.req.lock', 'o1'), G('cli.req.lock', 'o2'), G('cli.req.lock', 'o1'),
                                                  G('cli.send.lock', 'o2'), dict(a='sendfail'), G('cli.send.lock', 'o1'), dict(a='sendheal'), op('o3'), D,
                                                  op('o4', 'batch', [False, True, False]), D, peer(R(2, e)), D, peer(R(4), R(5), R(6), R(3), R(1)), D])
        # two callback handlers return together: their replies go out one after the other, never at once (explicit in-operation probe)
        add('cb-two-replies-%d' % v, {'callback': True}, [peer(('call', 7, False)), peer(('call', 8, False)), op('o1'), D, dict(a='cbret', id='7', out=['ok', 'err:7', 'ok'][v]), dict(a='cbret', id='8'),
                                                        dict(a='probe', kind='send'), D, peer(R(1)), D])
        # the reader stops the client (Recv failed) while operations are about to send: with a goroutine held inside Close nothing else touches the channel
        add('reader-stop-vs-send-%d' % v, {}, [op('o1'), D, [dict(a='recverr'), dict(a='peerclose'), dict(a='recvclosing')][v], op('o2'), op('o3', 'notify'), dict(a='probe', kind='close'), D])
        add('close-vs-send-%d' % v, {'callback': bool(v % 2)}, [op('o1'), D, op('o2', 'batch', [False, True]), dict(a='close'), dict(a='probe', kind='close'), D, dict(a='peerclose'), D])
        add('eof-callback-%d' % v, {'callback': True}, [peer(('call', 7, False)), D, dict(a='peerclose'), D, dict(a='close'), D, dict(a='cbret', id='7'), D])
        add('close-callback-%d' % v, {'callback': True, 'recvUnblocks': e}, [op('o1'), peer(('call', 7, False)), D, dict(a='close'), D, dict(a='peerclose'), D, dict(a='cbret', id='7'), D])
        # a callback handler that waits for its context: every way the client stops ends that context (Close included, which then returns)
        add('cb-aware-%d' % v, {'callback': True, 'cbaware': True, 'recvUnblocks': e}, [op('o1'), peer(('call', 7, False)), peer(('call', 8, False)), D, dict(a='cbret', id='8'), D,
                                                                                     [dict(a='close'), dict(a='peerclose'), dict(a='recverr')][v], D, dict(a='close'), D])
        # the reply of a callback handler cannot be sent: the channel is still closed once, by whatever ends the client afterwards
        add('cb-reply-sendfail-%d' % v, {'callback': True, 'recvUnblocks': e}, [peer(('call', 7, False)), D, dict(a='sendfail'), dict(a='cbret', id='7', out=['ok', 'err:7', 'ok'][v]), D,
                                                                            [dict(a='close'), dict(a='peerclose'), dict(a='sendheal')][v], D, op('o1'), D, dict(a='close'), D])
        # the channel's Close complains (after closing): everything else is as if it had not - pending calls end, OnStop runs once with the cause
        add('closefail-%d' % v, {'callback': e, 'recvUnblocks': bool(v == 2)}, [dict(a='closefail'), op('o1'), op('o2', 'batch', [False, True]), D,
                                                                                 [dict(a='close'), dict(a='peerclose'), dict(a='recverr')][v], D, op('o3'), D, dict(a='close'), D])
        # an array without members from the peer: nothing to deliver, nothing wrong with the connection; what is outstanding stays so
        add('peer-empty-array-%d' % v, {'callback': e}, [op('o1'), op('o2', 'batch', [False, True]), D, peer(arr=True), D, peer(R(1, e)), D, peer(arr=True), peer(R(2), R(3)), D,
                                                          op('o3'), D, peer(arr=True), D, peer(R(4)), D])
        # an OnStop hook that uses its client (IsStopped, Notify): whoever stops the client - the reader too - runs it where that is possible
        add('hook-touches-client-%d' % v, {'hooktouch': True, 'callback': e, 'recvUnblocks': bool(v == 0)}, [op('o1'), op('o2', 'batch', [False, True]), D,
                                                                                                    [dict(a='close'), dict(a='peerclose'), dict(a='recverr')][v], D, op('o3'), D, dict(a='close'), D])
        # replies addressed to nobody (id null, no id at all): nobody's - with one call waiting as with several
        add('reply-to-nobody-%d' % v, {}, [op('o1'), D, peer((['nullerr', 'noiderr', 'nullres'][v], 0, False)), D, peer(R(1, e)), D,
                                           op('o2'), op('o3', 'batch', [False, False]), D, peer(('nullerr', 0, False), ('noiderr', 0, False)), D, peer(R(3), ('nullres', 0, False), R(2, e), R(4)), D])
        add('close-twice-%d' % v, {'callback': True}, [peer(('call', 7, False)), D, dict(a='recverr'), D, dict(a='close'), D, dict(a='cbret', id='7'), D])
        add('reply-after-close-%d' % v, {}, [op('o1'), D, dict(a='close'), peer(R(1)), D])
    return out

FAMILY = {
  'C04': (['cli_c04q'], ['cli_c04q', 'cli_c04', 'cli_c04s'], ['cli_c04', 'cli_c04q', 'cli_c05m', 'cli_c04s'], 40),
  'C05': (['cli_c05u'], ['cli_c05u', 'cli_c05m', 'cli_c05', 'cli_c04s', 'cli_live'], ['cli_c05', 'cli_c05u', 'cli_c05m', 'cli_c04s'], 40),
}

def gen_scenarios(prop, tier, seed, nsim, probes=False):
    rng = random.Random(seed * 7919 + zlib.crc32(prop.encode()) % 1000)
    _, _, simcfgs, depth = FAMILY[prop]
    scs = []
    for ci, cfg in enumerate(simcfgs):
        ops, opts = cfg_info(cfg)
        behs = C.simulate_states(cfg, 'MCClient', nsim // len(simcfgs) + 1, depth, seed * 31 + ci)
        for bi, beh in enumerate(behs):
            steer = (bi % 4 != 3)
            scs.append(convert(beh, rng, '%s-%s-%d%s' % (prop, cfg, bi, '' if steer else '-r'), ops, dict(opts), steer=steer))
    for k in range(2 if tier == 'quick' else 6):
        for d in directed(rng, probes):
            d = dict(d); d['name'] += '-s%d' % k; d['seed'] = rng.randrange(1 << 30)
            scs.append(d)
    return scs

def signature(tr):
    return ' '.join(e['ev'] + (':' + e.get('err', '') if e['ev'] == 'OpE' else '') for e in tr if e['ev'] not in ('SB', 'SE', 'RB', 'RE', 'CB', 'CE', 'Quiescent'))

TMPL = """SPECIFICATION Spec
CONSTANTS Enforce = {ENFORCE}
CONSTRAINT Track
POSTCONDITION Accepted
CHECK_DEADLOCK FALSE
"""

def run_check(prop, tier, seed, replay=None):
    t0 = time.time()
    work = C.scratch('cli_' + prop)
    try:
        quick_cfgs, thorough_cfgs, simcfgs, depth = FAMILY[prop]
        design = []
        if replay is None:
            for cfg in (quick_cfgs if tier == 'quick' else thorough_cfgs):
                design.append(C.model_check(cfg, 'MCClient', timeout=1500))
        binp = C.build_harness('clifam', work)
        scs = [json.load(open(replay))['scenario']] if replay else gen_scenarios(prop, tier, seed, 240 if tier == 'quick' else 3000)
        traces, info = C.run_scenarios(binp, scs, work)
        if info['tool_trouble']:
            raise C.ToolError('; '.join(info['tool_trouble']))
        accepted, rej = C.validate_traces(traces, 'ClientContract', {prop}, TMPL, work)
        byname = {s['name']: s for s in scs}
        violations, anomalies = C.confirm_rejections(prop, rej, lambda n: byname[n], lambda sc, w: C.run_scenarios(binp, [sc], w, nworkers=1)[0], 'ClientContract', TMPL, work)
        cov = dict(states=sum(d['states'] for d in design) or 1, transitions=sum(d['transitions'] for d in design) or 1, design_runs=design,
                   traces_validated_against_impl=accepted + len(rej), scenarios=len(scs), evaluations=len(traces),
                   distinct_nontrivial=len({signature(t) for t in traces}),
                   rule='scenarios = ClientImpl behaviours from tlc -simulate replayed under gate control against a scripted raw peer + directed histories; '
                        'distinct = distinct sequences of observable event kinds (with operation outcomes)',
                   racy_schedules=sum(t[0].get('st_racy', 0) > 0 for t in traces), steering_divergences=sum(t[0].get('st_diverged', 0) for t in traces),
                   state_projections_compared=sum(t[0].get('st_projok', 0) for t in traces), conformance_drift=sum(t[0].get('st_drift', 0) for t in traces),
                   crashes=len(info['crashes']),
                   samples=[dict(scenario=scs[0]['name'], steps=scs[0]['steps'][:12], events=[e['ev'] for e in traces[0]][:40])], exhaustive=False)
        C.write_evidence(prop, tier, seed, 'model_checking', cov, time.time() - t0, len(violations),
                         assumptions=['the peer closes its end after the client closes (property assumption)', 'trusted: harness recorder, vchan classifier, TLC'])
        for name, path, r in violations:
            print('VIOLATION property=%s replay=%s' % (prop, path))
            print('  scenario %s rejected at event %d: %s' % (name, r['at'], json.dumps(r['event'])[:300]))
        return 1 if violations else 0
    finally:
        shutil.rmtree(work, ignore_errors=True)
