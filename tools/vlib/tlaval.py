"""Minimal parser for TLA+ values as printed by TLC (records, sequences, sets, strings, ints, booleans)."""
import re

_tok = re.compile(r'\s*(<<|>>|\|->|:>|@@|[\[\]{}(),]|"(?:[^"\\]|\\.)*"|-?\d+|[A-Za-z_][A-Za-z0-9_]*)')

def tokenize(s):
    pos, out = 0, []
    while pos < len(s):
        m = _tok.match(s, pos)
        if not m:
            if s[pos:].strip() == '':
                break
            raise ValueError("bad TLA value at %r" % s[pos:pos+40])
        out.append(m.group(1)); pos = m.end()
    return out

def parse(s):
    toks = tokenize(s)
    v, i = _val(toks, 0)
    return v

def json_key(k):
    return k if isinstance(k, (str, int)) else str(k)

def _val(t, i):
    x = t[i]
    if x == '<<':
        i += 1; out = []
        while t[i] != '>>':
            v, i = _val(t, i); out.append(v)
            if t[i] == ',': i += 1
        return out, i + 1
    if x == '{':
        i += 1; out = []
        while t[i] != '}':
            v, i = _val(t, i); out.append(v)
            if t[i] == ',': i += 1
        return out, i + 1
    if x == '[':
        i += 1; out = {}
        while t[i] != ']':
            k = t[i]; assert t[i+1] == '|->', t[i:i+3]
            v, i = _val(t, i + 2); out[k] = v
            if t[i] == ',': i += 1
        return out, i + 1
    if x == '(':     # function printed as (k1 :> v1 @@ k2 :> v2)
        i += 1; out = {}
        while t[i] != ')':
            k, i = _val(t, i); assert t[i] == ':>', t[i:i+3]
            v, i = _val(t, i + 1)
            out[json_key(k)] = v
            if t[i] == '@@': i += 1
        return out, i + 1
    if x.startswith('"'):
        return x[1:-1], i + 1
    if x == 'TRUE': return True, i + 1
    if x == 'FALSE': return False, i + 1
    if re.fullmatch(r'-?\d+', x): return int(x), i + 1
    return x, i + 1

_act = re.compile(r'^\\\* <([A-Za-z0-9_]+)(?:\((.*)\))? line \d+, col \d+ to line \d+, col \d+ of module')

def split_args(s):
    """Split top-level comma separated arguments."""
    out, depth, cur, instr = [], 0, '', False
    i = 0
    while i < len(s):
        c = s[i]
        if instr:
            cur += c
            if c == '\\': cur += s[i+1]; i += 1
            elif c == '"': instr = False
        elif c == '"': instr = True; cur += c
        elif s.startswith('<<', i): depth += 1; cur += '<<'; i += 1
        elif s.startswith('>>', i): depth -= 1; cur += '>>'; i += 1
        elif c in '[{(': depth += 1; cur += c
        elif c in ']})': depth -= 1; cur += c
        elif c == ',' and depth == 0: out.append(cur.strip()); cur = ''
        else: cur += c
        i += 1
    if cur.strip(): out.append(cur.strip())
    return out

def behaviour_actions(path):
    """Yield (action_name, [parsed args]) for each step of a TLC -simulate behaviour file."""
    out = []
    for line in open(path):
        m = _act.match(line)
        if m:
            name, args = m.group(1), m.group(2)
            out.append((name, [parse(a) for a in split_args(args)] if args else []))
    return out

def behaviour_with_states(path):
    """Like behaviour_actions but also returns the variable values of each state (values may span lines)."""
    out, cur, key, buf = [], None, None, []
    def flush():
        nonlocal key, buf
        if cur is not None and key is not None:
            try:
                cur[2][key] = parse(' '.join(buf))
            except Exception:
                pass
        key, buf = None, []
    for line in open(path):
        line = line.rstrip('\n')
        m = _act.match(line)
        if m:
            flush()
            name, args = m.group(1), m.group(2)
            cur = [name, [parse(a) for a in split_args(args)] if args else [], {}]
            out.append(cur)
            continue
        m2 = re.match(r'^/\\ (\w+) = (.*)$', line)
        if m2:
            flush()
            key, buf = m2.group(1), [m2.group(2)]
        elif line.strip() == '' or line.startswith('STATE_') or line.startswith('----') or line.startswith('===='):
            flush()
        elif key is not None:
            buf.append(line.strip())
    flush()
    return out
