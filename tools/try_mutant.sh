#!/bin/bash
# usage: try_mutant.sh <seeded-name> <prop> [tier]
# Runs the check of <prop> against a scratch copy of /repo with the seeded change applied (VERIF_REPO); /repo itself and
# /verif/evidence are not touched, so trials can run next to clean-tree runs and next to each other.
name=$1; prop=$2; tier=${3:-quick}
V=$(cd "$(dirname "$0")/.." && pwd)
cd "$V"
R=$(mktemp -d /tmp/repomut.XXXXXX); E=$(mktemp -d /tmp/evmut.XXXXXX)
trap 'rm -rf "$R" "$E"' EXIT
rsync -a --exclude .git /repo/ "$R"/
( cd "$R" && git apply "$V"/seeded/$name/patch.diff ) || { echo "patch does not apply"; exit 2; }
start=$(date +%s)
VERIF_REPO=$R VERIF_EVIDENCE_DIR=$E ./check $prop $tier > /tmp/try_${name}_$prop.out 2>&1; rc=$?
echo "mutant=$name check=$prop tier=$tier exit=$rc secs=$(( $(date +%s) - start )) $(grep -c '^VIOLATION' /tmp/try_${name}_$prop.out) violation-lines"
grep -A1 '^VIOLATION' /tmp/try_${name}_$prop.out | head -4 | cut -c1-400
[ $rc = 2 ] && tail -5 /tmp/try_${name}_$prop.out
exit 0
