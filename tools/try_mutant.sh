#!/bin/bash
# usage: try_mutant.sh <seeded-name> <prop> [tier]   -- applies the seeded patch to /repo, runs the check, reverts
name=$1; prop=$2; tier=${3:-quick}
cd /verif
git -C /repo diff --quiet || { echo "/repo not clean"; exit 2; }
git -C /repo apply /verif/seeded/$name/patch.diff || exit 2
trap 'git -C /repo checkout -- . ' EXIT
start=$(date +%s)
./check $prop $tier > /tmp/try_${name}_$prop.out 2>&1; rc=$?
echo "mutant=$name check=$prop tier=$tier exit=$rc secs=$(( $(date +%s) - start )) $(grep -c '^VIOLATION' /tmp/try_${name}_$prop.out) violation-lines"
grep -A1 '^VIOLATION' /tmp/try_${name}_$prop.out | head -4 | cut -c1-400
[ $rc = 2 ] && tail -5 /tmp/try_${name}_$prop.out
exit 0
