#!/usr/bin/env python3
"""Regenerates /verif/MANIFEST.json from the table below (one entry per claimed property)."""
import json, os, subprocess
V = os.path.dirname(os.path.dirname(os.path.abspath(__file__)))
props = [json.loads(l) for l in open(os.path.join(V, 'properties.jsonl'))]

SERVER_NOTE = ('Trusted base: TLC, the Go harness (recorder, gate scheduler, instrumented channel and its generic-JSON record classifier), '
               'testing/synctest quiescence. Exhaustive only within the constants of the spec/cfg files; beyond them seeded simulation. '
               'Operations held in progress (a Send or Close parked inside the instrumented channel, the library\'s lock held) use an extended quiescence read from goroutine dumps (DESIGN 10.16). '
               'Handlers are assumed to return when the harness releases them.')
def server(pid, what, ref):
    return dict(
        technique='TLA+ model checking (ServerImpl, TLC exhaustive) + model-based replay of TLC behaviours into the real Server under gate control + TLC trace validation against ServerContract with Enforce={%s}' % pid,
        category='model_checking',
        text=what + ' Design level: TLC checks the invariants/action properties of spec/ServerImpl.tla exhaustively for the bounded configuration(s) named in the evidence. '
             'Code level: behaviours simulated by TLC from ServerImpl (plus directed histories) are replayed into the real jrpc2.Server inside a testing/synctest bubble, '
             'one critical section at a time via the verif gates; every recorded trace of observable events is validated by TLC against spec/ServerContract.tla '
             'with only this property\'s guards enforced; a rejection is re-executed before it is reported.',
        ref=ref, note=SERVER_NOTE)

def client(pid, what, ref):
    return dict(
        technique='TLA+ model checking (ClientImpl, TLC exhaustive) + model-based replay of TLC behaviours into the real Client against a scripted peer under gate control + TLC trace validation against ClientContract with Enforce={%s}' % pid,
        category='model_checking',
        text=what + ' Design level: TLC checks the invariants/action properties of spec/ClientImpl.tla exhaustively for the bounded configuration(s) named in the evidence. '
             'Code level: behaviours simulated by TLC from ClientImpl (plus directed histories) are replayed into the real jrpc2.Client inside a testing/synctest bubble '
             '(caller, reader, delivery, watcher and callback goroutines released one critical section at a time); every recorded trace is validated by TLC against spec/ClientContract.tla '
             'with only this property\'s guards enforced; a rejection is re-executed before it is reported.',
        ref=ref, note=SERVER_NOTE.replace('Handlers are assumed to return when the harness releases them.', 'The peer is assumed to close its end after the client closes (as the property states).'))

TABLE_NOTE = ('Trusted base: TLC evaluation of the reference module, the concretisation (abstract class -> byte strings / Go values) and abstraction code of the named harness package '
              '(deliberately dumb: string templates, encoding/json generic decode, byte equality). Exhaustive over the abstract product stated in the evidence; concrete values within a class are sampled (VERIF_SEED). '
              'Beyond the table the harness runs directed blocks for what no per-call table can say (overlapping and parallel calls, element-by-element references, sequences of sizes, restarts); they are listed per property in DESIGN 10.9-10.17.')
def table(pid, module, pkg, what, ref):
    return dict(
        technique='TLA+ reference function (spec/%s.tla) evaluated by TLC over the complete product of abstract input classes and exported as a table; every cell concretised and replayed into the real code (harness/%s); outcomes outside the allowed set are violations' % (module, pkg),
        category='model_checking', text=what, ref=ref, note=TABLE_NOTE)

CHECKS = {
 'C02': table('C02', 'Wire', 'wirefam', 'JSON-RPC conformance and survival on arbitrary inbound records: the verdict function of spec/Wire.tla (a transcription of the property statement, not of the Go code) is evaluated by TLC over all 15400 combinations of per-field variants; each cell is sent as a single object, inside arrays and in random batches to a real Server (AllowPush off and on) inside a synctest bubble; handler invocations and output records at quiescence are compared with the allowed outcome set, outputs are validated by an independent JSON-RPC response validator, and a liveness probe follows. Seeded mutations beyond the bound use the survival / valid-output oracle. In addition a workload of the server family (TLC-simulated behaviours of ServerImpl and the directed histories) is replayed into the real Server and its traces are validated by TLC against ServerContract with the guards tagged C02 enforced (invalid, unknown and reply-shaped members never run and get the error of their class), and look-alike replies are sent to a push server with a callback outstanding.', 'DESIGN.md §4 C02, §10.22'),
 'C13': dict(technique='TLA+ reference function (spec/Wire.tla Flagged) table replay into ParseRequests + TLC trace validation of the message-grammar guard (ChanDiscipline, tag C13) on every Send event of the concurrent families + TLC-enumerated product (spec/Emit.tla) pushed through every emission path with a decode(encode(x)) = x oracle',
        category='model_checking',
        text='(a) ParseRequests is total, reports a top-level error exactly for invalid JSON, returns one entry per member in order and flags exactly the structurally invalid members, per the Wire table (model-based). '
             '(b.i) every record handed to a channel in the server/client family workloads is one line and versioned (trace validation). '
             '(b.ii) encode/decode fidelity is not something a TLA+ model illuminates: here TLC only enumerates the product of emission paths x method character classes (quotes, backslash, LF, TAB, NUL, DEL, HTML, U+2028, non-BMP, "rpc." ...) x value classes (absent, null, nested, big numbers, raw JSON with inner newlines/tabs, control characters, ...); each cell goes through the real Call/Batch/Notify/response/error response/push/callback/callback reply/Bridge path and the captured bytes are checked for UTF-8, no raw control byte, version, shape and JSON-equal round trip by the library parser and an independent decoder.',
        ref='DESIGN.md §4 C13', note=TABLE_NOTE + ' For (b.ii) the level is honestly "other": combinatorial enumeration by TLC with a Go round-trip oracle.'),
 'C14': table('C14', 'Errors', 'errfam', 'Error classification from handler to caller: ErrorCode / ToWire / FromWire of spec/Errors.tla are evaluated by TLC over every error tree up to the bound (and the round-trip theorem is checked on the reference itself); each tree is built from the real constructors, returned by a real handler and observed through Call, CallResult, Batch and a server Callback: equal ErrorCode on both sides, exact context sentinels, *Error code/message/data unchanged (JSON-equal); all listed and seeded int32 codes; WithData receivers; unmarshalable results become error responses.', 'DESIGN.md §4 C14'),
 'C15': table('C15', 'HandlerAdapt', 'adaptfam', 'handler.Check/New/Wrap: the signature grammar (256 shapes; function types synthesised with reflect.FuncOf/MakeFunc) and the wrap decision tables of spec/HandlerAdapt.tla (struct-like parameter variants x SetStrict x AllowArray x params shapes; non-struct kinds) are evaluated by TLC and replayed: accepted / rejected, FuncInfo fields, called exactly once / not called with InvalidParams, never a panic, results and errors returned unchanged; the argument value is compared with what encoding/json decodes after an independent array-to-field translation.', 'DESIGN.md §4 C15'),
 'C16': table('C16', 'HandlerAdapt', 'adaptfam', 'handler.Positional/NewPos, Args, Obj: arities 1..6 x params shapes (exact / short / long / empty arrays, null or wrong element at every position, objects with all / some / unknown names, wrong types), name-list lengths, Args lengths and nil slots, Obj key sets, from the tables of spec/HandlerAdapt.tla; called with exactly the decoded values or InvalidParams without a call; untouched targets stay untouched.', 'DESIGN.md §4 C16'),
 'C19': dict(technique='TLA+ reference function (spec/QueryTyping.tla) table replay into ParseQuery/ParseBasic/Getter + TLA+ model checking of spec/HttpChan.tla (with a must-fail F11 variant) and replay of TLC-simulated behaviours into a real jhttp.Channel with state comparison + transport-equivalence differential run',
        category='model_checking',
        text='(a) Every query value up to the bound is typed by the documented rules in spec/QueryTyping.tla (MUST-number, MUST-NOT-number, constants, quoted strings, base64, literal; open cases as sets) and replayed into ParseQuery, ParseBasic and a real Getter: never a panic, non-empty trimmed method, marshalable params, 200/400/404/500 mapping with JSON bodies. '
             '(c) spec/HttpChan.tla (send goroutines, rendezvous with Recv, Close drain) is checked exhaustively by TLC; simulated behaviours are replayed into a real jhttp.Channel inside a synctest bubble with gated HTTP round trips and counted response bodies, comparing the projected state after every action and the resource invariants at the end. '
             '(b) one workload over jhttp.Channel+Bridge and over a direct connection must give identical results.',
        ref='DESIGN.md §4 C19', note=TABLE_NOTE),
 'C17': table('C17', 'Dispatch', 'dispfam', 'Method dispatch: Target(mux, builtin, name) of spec/Dispatch.tla (Map = whole name, ServiceMap = first-dot split, reserved rpc.* gate before the assigner) evaluated by TLC for every name up to the bound x mux shapes x DisableBuiltin; each name called and notified on a real Server built from the exported mux description; compared: handler identity, what handler and assigner saw (InboundRequest, ServerFromContext), answers, Names() sorted, rpc.serverInfo.', 'DESIGN.md §4 C17'),
 'C11': table('C11', 'Framing', 'framefam', 'Framing round trip under any fragmentation: record class sequences (legality per framing from the spec) are sent with the real Send and received through a chunk-controlled reader under all cut sets (short streams), 1-byte reads, boundary cuts, random cuts and data-together-with-EOF; Recv must return exactly the records and then io.EOF; a record containing the split byte must be refused with nothing written.', 'DESIGN.md §4 C11'),
 'C12': table('C12', 'Framing', 'framefam', 'Framing robustness: the symbol-level reference decoders of spec/Framing.tla (Split and the Header family under strict / optional / empty mime type) are evaluated by TLC over every token stream up to the bound; each stream is decoded by the real Recv under many fragmentations and the outcome sequence (records byte for byte, errors, keeps-failing-after-exhaustion) compared; absurd Content-Length values and seeded byte mutations are checked for no-crash / no-short-record / no-fabrication.', 'DESIGN.md §4 C12'),
 'C01': server('C01', 'Exactly one correlated response per call, none per notification, batch shape/order, nothing for nothing-to-report.', 'DESIGN.md §4 C01'),
 'C03': server('C03', 'Notification barrier and its converse (running calls do not hold back later requests).', 'DESIGN.md §4 C03'),
 'C06': server('C06', 'Concurrency limit, work conservation at every quiescent point, cancelled waiters never run.', 'DESIGN.md §4 C06'),
 'C07': server('C07', 'Cancellation hits only its target; ids reserved exactly while in flight.', 'DESIGN.md §4 C07'),
 'C08': server('C08', 'Crash-free, clean, restartable shutdown for Stop / peer close / Recv error / Send error at every position.', 'DESIGN.md §4 C08'),
 'C10': dict(technique='TLA+ model checking (ChanLock: lock-based sender/closer model, TLC exhaustive, plus a must-fail unlocked variant) + TLC trace validation of instrumented-channel begin/end events against the ChanDiscipline monitor, with in-operation overlap probes under gate control; the connections of server.Loop are validated against LoopContract (closed exactly once, guard tagged C10)',
        category='model_checking',
        text='Channel discipline: one Send, one Recv, no Send/Close overlap, one Close per Start/NewClient, whole messages. Design level: spec/ChanLock.tla (every channel-touching site as a process with separate lock/begin/end/unlock steps) is checked exhaustively; the variant with one site outside the lock must violate the invariants. '
             'Code level: the workloads of the server and client families run with overlap probes: a goroutine is parked INSIDE Send/Close (holding whatever lock the library holds) while every other parked goroutine and concurrent Stop/Notify/CancelRequest/Close calls are released and an extended-quiescence detector (consistent stack snapshot: durable wait or sync.Mutex wait) decides when they have settled; the begin/end events of every trace are validated by TLC against spec/ChanDiscipline.tla.',
        ref='DESIGN.md §4 C10', note=SERVER_NOTE),
 'C04': client('C04', 'Replies are matched to requests by id for every ordering, grouping, duplication and pollution of the reply stream; ids unique; Batch order.', 'DESIGN.md §4 C04'),
 'C05': client('C05', 'Every operation completes exactly once under reply / context end / Close / EOF / Recv error / Send error / undecodable input; hooks exactly once; nothing transmitted after stop.', 'DESIGN.md §4 C05'),
 'C18': dict(technique='TLA+ model checking (BridgeImpl, TLC exhaustive, plus a must-fail shared-buffer variant) + model-based replay of TLC behaviours into a real jhttp.Bridge with concurrent HTTP requests under gate control + TLC trace validation against BridgeContract',
        category='model_checking',
        text='HTTP bridge: each caller gets exactly the responses to its own calls under its own id texts, object/array and 200/204 rules, invalid members answered statically without reaching a handler, 405/415/error status for refused requests, every valid request run exactly once. '
             'Design level: spec/BridgeImpl.tla (shared client id allocation interleaved between callers, positional remapping) checked exhaustively for 2-3 callers with colliding ids. Code level: simulated behaviours and directed histories replayed into the real Bridge via httptest inside a synctest bubble (interleaved Client.req / Client.send critical sections, all handler completion orders); traces validated against spec/BridgeContract.tla (responses matched as a multiset; ids compared by JSON value).',
        ref='DESIGN.md §4 C18', note=SERVER_NOTE),
 'C20': dict(technique='TLA+ model checking (LoopImpl, TLC exhaustive, plus a must-fail F10 variant) + model-based replay of TLC behaviours into the real server.Loop with harness accepter/services/connections under gate control + TLC trace validation against LoopContract',
        category='model_checking',
        text='server.Loop: fresh service and exactly one Finish per connection with its own assigner and exit status, after its server has exited; Loop returns last with nil for a closing error and the accepter\'s error otherwise; context end stops every server; a failed Assigner gets no server, no Finish and a closed connection. '
             'Design level: spec/LoopImpl.tla checked exhaustively for <= 3 connections (custom accepter) and 2 (NetAccepter-like). Code level: simulated behaviours and directed histories replayed into the real Loop inside a synctest bubble; traces validated against spec/LoopContract.tla.',
        ref='DESIGN.md §4 C20', note=SERVER_NOTE),
 'C09': server('C09', 'Server push: Notify/Callback transmission, reply matching, late replies discarded, context end, stop.', 'DESIGN.md §4 C09'),
}
REASONS = {}

def main():
    hooks = subprocess.run(['git', '-C', '/repo', 'log', '--format=%h %s'], capture_output=True, text=True).stdout.splitlines()
    hook_commits = [l.split()[0] for l in hooks if l.split(' ', 1)[1].startswith('verif:')]
    m = dict(version=1,
      setup_cmd='cd /verif && ./setup.sh',
      hooks=dict(guard='verif', enable='harness module (go 1.26, replace github.com/creachadair/jrpc2 => /repo) is built with `go1.26.8 test -tags verif`',
                 baseline_off_cmd='cd /repo && GOFLAGS=-mod=mod GOPROXY=off GOSUMDB=off go test -vet=off -count=1 ./...',
                 source_commits=hook_commits, add_only=True),
      engines=[dict(name='tlc', path='/opt/veriftools/tla/tla2tools.jar', serves_properties=sorted(CHECKS), kind_free_text='TLC 1.8.0 explicit-state model checker: exhaustive design checks, behaviour generation (-simulate), trace validation'),
               dict(name='harness', path='/verif/harness', serves_properties=sorted(CHECKS), kind_free_text='Go conformance harness (testing/synctest bubbles, verif gate scheduler, instrumented channel); drives and records, contains no oracle for the concurrent properties')],
      checks=[], not_applicable=[], notes='See DESIGN.md. Exit codes: 0 held, 1 VIOLATION, 2 inconclusive (tool trouble; never on the unchanged tree).')
    for p in props:
        pid = p['id']
        if pid in CHECKS:
            c = CHECKS[pid]
            m['checks'].append(dict(property_id=pid, quick_cmd='./check %s quick' % pid, thorough_cmd='./check %s thorough' % pid,
                evidence_file='evidence/%s.json' % pid, replay_cmd_template='./check %s --replay {path}' % pid, engine='tlc+harness',
                level_claimed=dict(category=c['category'], text=c['text'], design_ref=c['ref']), level_note=c['note'], technique=c['technique']))
        else:
            m['not_applicable'].append(dict(property_id=pid, reason=REASONS.get(pid, 'check under construction in this round; not claimed yet')))
    json.dump(m, open(os.path.join(V, 'MANIFEST.json'), 'w'), indent=1)
    print('checks:', [c['property_id'] for c in m['checks']])

if __name__ == '__main__':
    main()
