------------------------------- MODULE MCServer -------------------------------
(* Model-checking instances of ServerImpl: message pools and switch records. *)
EXTENDS ServerImpl

N(m)     == [k |-> "note",  id |-> 0, m |-> m,    notey |-> TRUE]
C(i, m)  == [k |-> "call",  id |-> i, m |-> m,    notey |-> FALSE]
InvNote  == [k |-> "inv",   id |-> 0, m |-> "ok", notey |-> TRUE]    \* e.g. {"jsonrpc":"1.0","method":"ok"}
InvNoId  == [k |-> "inv",   id |-> 0, m |-> "ok", notey |-> FALSE]   \* e.g. {"jsonrpc":"2.0"} / non-object
Inv(i)   == [k |-> "inv",   id |-> i, m |-> "ok", notey |-> FALSE]   \* bad version with an id
R(i)     == [k |-> "reply", id |-> i, m |-> "ok", notey |-> FALSE]   \* reply-shaped member
S(x)       == [kind |-> "msg", arr |-> FALSE, mem |-> <<x>>, n |-> 0]
B1(x)      == [kind |-> "msg", arr |-> TRUE,  mem |-> <<x>>, n |-> 0]
B2(x, y)   == [kind |-> "msg", arr |-> TRUE,  mem |-> <<x, y>>, n |-> 0]
B3(x, y, z) == [kind |-> "msg", arr |-> TRUE, mem |-> <<x, y, z>>, n |-> 0]
G  == [kind |-> "garbage", arr |-> FALSE, mem |-> <<>>, n |-> 0]
E  == [kind |-> "empty",   arr |-> TRUE,  mem |-> <<>>, n |-> 0]

AllFixed == [F1 |-> TRUE, F23 |-> TRUE, F4 |-> TRUE, F7 |-> TRUE, F9 |-> TRUE, F14 |-> TRUE]
NoF1  == [AllFixed EXCEPT !.F1  = FALSE]
NoF23 == [AllFixed EXCEPT !.F23 = FALSE]
NoF4  == [AllFixed EXCEPT !.F4  = FALSE]
NoF7  == [AllFixed EXCEPT !.F7  = FALSE]
NoF9  == [AllFixed EXCEPT !.F9  = FALSE]
NoF14 == [AllFixed EXCEPT !.F14 = FALSE]

\* --- pools per property family ---------------------------------------------------
PoolC01 == {S(C(1,"ok")), S(N("ok")), B2(C(1,"ok"), C(2,"ok")), B2(C(1,"ok"), N("ok")), B2(N("ok"), N("ok")),
            B2(C(1,"ok"), Inv(2)), B1(InvNoId), B2(C(1,"nf"), N("nf")), G, E,
            B1(C(2,"ok")), B1(N("ok"))}     \* one-member arrays: the reply is an array iff the inbound message was one
PoolC03 == {S(N("ok")), S(C(1,"ok")), S(C(2,"ok")), B2(N("ok"), C(1,"ok")), B2(C(1,"ok"), C(2,"ok")), B2(N("ok"), N("ok"))}
PoolC06 == {S(C(1,"ok")), S(C(2,"ok")), B2(C(1,"ok"), C(2,"ok")), B3(C(1,"ok"), C(2,"ok"), C(3,"ok")), S(N("ok")), S(C(3,"info"))}
PoolC07 == {S(C(1,"ok")), S(C(1,"nf")), S(C(1,"rpc")), S(C(2,"ok")), B2(C(1,"ok"), C(1,"ok")), B2(C(1,"nf"), C(2,"ok")), S(N("ok")),
            B3(C(1,"ok"), C(1,"ok"), C(2,"ok")), B2(Inv(1), C(2,"ok")), B2(InvNoId, C(1,"ok"))}   \* never-executed members before an executed call
PoolC08 == {S(N("ok")), S(C(1,"ok")), S(InvNote), G, E, B2(C(1,"ok"), N("ok")), B2(N("ok"), C(1,"ok"))}
PoolC09 == {S(C(1,"ok")), S(N("ok")), S(R(1)), S(R(2)), B2(R(1), C(1,"ok")), B2(R(1), R(1))}
PoolC09r == {S(R(1)), S(R(2)), S(N("ok"))}
\* replies held inside Send while the rest goes on (srv_send, srv_send2)
PoolSend == {S(C(1,"ok")), S(C(2,"ok")), S(C(3,"ok")), S(N("ok")), B2(C(1,"ok"), C(2,"ok"))}
PoolSmall == {S(N("ok")), S(C(1,"ok")), G}
\* every message shape of every family at once: simulation only (srv_all), for the cross-feature behaviours
\* no single-property configuration contains (cancellation x push x faults x restart)
PoolAll == PoolC01 \cup PoolC03 \cup PoolC06 \cup PoolC07 \cup PoolC08 \cup PoolC09
================================================================================
