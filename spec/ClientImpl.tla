-------------------------------- MODULE ClientImpl --------------------------------
(***************************************************************************)
(* The jrpc2 Client as the code runs it (client.go, base.go): caller       *)
(* goroutines (req -> send -> wait), the reader (accept), one delivery     *)
(* goroutine per inbound record, one context watcher (waitComplete) per    *)
(* pending request, callback goroutines, and the stop path.  One action    *)
(* per critical section; gates (vhook.Point) are the scheduling points.    *)
(***************************************************************************)
EXTENDS Naturals, Sequences, FiniteSets, TLC

CONSTANTS Ops,          \* op name -> [kind |-> "call"|"batch"|"notify", specs |-> Seq(BOOLEAN)]  (TRUE = notification spec)
          MaxRecv,      \* bound on records the peer sends
          Faults,       \* subset of {"ctx","close","peerclose","recverr","sendfail","garbage","srvreq"}
          RecvUnblocks, \* does Close() of the channel unblock a pending Recv?
          HasCallback   \* is an OnCallback handler installed?

VARIABLES
  op,        \* op name -> [pc, k, ids, ctx, res]   pc: "idle"|"req"|"send"|"wait"|"ret"
  nextID,
  slot,      \* id -> [op, st: "pending"|"filled", by: "reply"|"ctx"|"-", fills, pay]
  watch,     \* id -> "armed"|"gate"|"gone"
  rdpc,      \* "recv" | "fail" (at gate cli.fail.lock) | "done"
  rderr,     \* error the reader is about to report: "eof"|"err"|"decode"|"closed"
  dq,        \* deliveries: Seq of [items, st: "gate"|"done"]
  nrecv, peerClosed,
  ch, err,   \* "open"|"nil" ; "none"|"closed"(Close)|"eof"|"err"|"decode"|"closedch"
  sendOK,
  cbk,       \* callback id -> "run"|"gate"|"done"
  closepc,   \* "none"|"wait"|"ret"
  onstop,    \* number of OnStop invocations
  oncancel,  \* id -> number of OnCancel invocations
  sent,      \* sequence of transmitted requests (observation)
  blocked    \* "none" or a description of a goroutine blocked for ever under the lock

vars == <<op, nextID, slot, watch, rdpc, rderr, dq, nrecv, peerClosed, ch, err, sendOK, cbk, closepc,
          onstop, oncancel, sent, blocked>>

EmptyFn == [x \in {} |-> 0]
OpNames == DOMAIN Ops
NonNotes(o) == {i \in 1..Len(Ops[o].specs) : ~Ops[o].specs[i]}
NCalls(o) == Cardinality(NonNotes(o))

Init ==
  /\ op = [o \in OpNames |-> [pc |-> "idle", k |-> 0, ids |-> <<>>, ctx |-> FALSE, res |-> "-"]]
  /\ nextID = 1 /\ slot = EmptyFn /\ watch = EmptyFn
  /\ rdpc = "recv" /\ rderr = "none" /\ dq = <<>> /\ nrecv = 0 /\ peerClosed = FALSE
  /\ ch = "open" /\ err = "none" /\ sendOK = TRUE /\ cbk = EmptyFn /\ closepc = "none"
  /\ onstop = 0 /\ oncancel = EmptyFn /\ sent = <<>> /\ blocked = "none"

RECURSIVE SeqToSet(_)
SeqToSet(s) == IF s = <<>> THEN {} ELSE {Head(s)} \cup SeqToSet(Tail(s))

(***************************************************************************)
(* An operation returns as soon as every one of its responses is settled   *)
(* (Response.wait reads the slot); no gate on that path.                   *)
(***************************************************************************)
AllFilled(o, sl, ops) == \A i \in 1..Len(ops[o].ids) : sl[ops[o].ids[i]].st = "filled"
Returned(ops, sl) ==
  [o \in DOMAIN ops |-> IF ops[o].pc = "wait" /\ AllFilled(o, sl, ops)
                         THEN [ops[o] EXCEPT !.pc = "ret", !.res = "responses"] ELSE ops[o]]

(***************************************************************************)
(* Caller goroutines.                                                      *)
(***************************************************************************)
StartOp(o) ==
  /\ op[o].pc = "idle" /\ closepc = "none"
  /\ op' = [op EXCEPT ![o].pc = IF NCalls(o) = 0 THEN "send" ELSE "req", ![o].k = 0]
  /\ UNCHANGED <<nextID, slot, watch, rdpc, rderr, dq, nrecv, peerClosed, ch, err, sendOK, cbk, closepc, onstop, oncancel, sent, blocked>>

OpReq(o) ==   \* Client.req: allocate the next id under the lock
  /\ op[o].pc = "req"
  /\ LET k2 == op[o].k + 1 IN
     op' = [op EXCEPT ![o].ids = Append(@, nextID), ![o].k = k2,
                      ![o].pc = IF k2 = NCalls(o) THEN "send" ELSE "req"]
  /\ nextID' = nextID + 1
  /\ UNCHANGED <<slot, watch, rdpc, rderr, dq, nrecv, peerClosed, ch, err, sendOK, cbk, closepc, onstop, oncancel, sent, blocked>>

OpSend(o) ==  \* Client.send under the lock
  /\ op[o].pc = "send"
  /\ IF err # "none"
     THEN /\ op' = [op EXCEPT ![o].pc = "ret", ![o].res = "refused"]
          /\ UNCHANGED <<slot, watch, sent>>
     ELSE IF ~sendOK
     THEN /\ op' = [op EXCEPT ![o].pc = "ret", ![o].res = "senderr"]
          /\ UNCHANGED <<slot, watch, sent>>
     ELSE LET ids == SeqToSet(op[o].ids)
              sl2 == [i \in DOMAIN slot \cup ids |-> IF i \in ids THEN [op |-> o, st |-> "pending", by |-> "-", fills |-> 0] ELSE slot[i]]
              op2 == [op EXCEPT ![o].pc = IF ids = {} THEN "ret" ELSE "wait", ![o].res = IF ids = {} THEN "sentnotes" ELSE "-"]
          IN  /\ slot' = sl2
              \* a watcher per pending request; if the context is already done it is at its gate at once
              /\ watch' = [i \in DOMAIN watch \cup ids |-> IF i \in ids THEN (IF op[o].ctx THEN "gate" ELSE "armed") ELSE watch[i]]
              /\ op' = op2
              /\ sent' = Append(sent, [op |-> o, ids |-> op[o].ids])
  /\ UNCHANGED <<nextID, rdpc, rderr, dq, nrecv, peerClosed, ch, err, sendOK, cbk, closepc, onstop, oncancel, blocked>>

CtxEnd(o) ==  \* the caller's context ends (cancel or deadline)
  /\ "ctx" \in Faults /\ ~op[o].ctx /\ op[o].pc \in {"req", "send", "wait"}
  /\ op' = [op EXCEPT ![o].ctx = TRUE]
  /\ watch' = [i \in DOMAIN watch |-> IF slot[i].op = o /\ watch[i] = "armed" THEN "gate" ELSE watch[i]]
  /\ UNCHANGED <<nextID, slot, rdpc, rderr, dq, nrecv, peerClosed, ch, err, sendOK, cbk, closepc, onstop, oncancel, sent, blocked>>

(***************************************************************************)
(* The peer and the reader.  An inbound record is a sequence of items:     *)
(*   [t |-> "reply", id |-> i]   reply for id i (pending, finished or never used) *)
(*   [t |-> "bad",   id |-> i]   malformed member carrying id i            *)
(*   [t |-> "note"] / [t |-> "call", id |-> j]   server push               *)
(*   [t |-> "badcall", id |-> j]   a server-initiated call that fails      *)
(*                                 validation (wrong version, extra member)*)
(***************************************************************************)
RECURSIVE SumCalls(_)
SumCalls(S) == IF S = {} THEN 0 ELSE LET o == CHOOSE x \in S : TRUE IN Cardinality({i \in 1..Len(Ops[o].specs) : ~Ops[o].specs[i]}) + SumCalls(S \ {o})
TotalCalls == SumCalls(DOMAIN Ops)
ReplyIds == 1..(TotalCalls + 1)      \* includes one id that is never issued
Items == [t : {"reply"}, id : ReplyIds] \cup {[t |-> "bad", id |-> 1]}
         \cup (IF "srvreq" \in Faults THEN {[t |-> "note", id |-> 0], [t |-> "call", id |-> 7], [t |-> "badcall", id |-> 1]} ELSE {})
Records == {<<x>> : x \in Items} \cup {<<x, y>> : x \in Items, y \in Items}

PeerDeliver(rec) ==  \* the reader receives a decodable record and spawns its delivery goroutine
  /\ nrecv < MaxRecv /\ ~peerClosed /\ rdpc = "recv"
  /\ nrecv' = nrecv + 1
  /\ dq' = Append(dq, [items |-> rec, st |-> "gate"])
  /\ UNCHANGED <<op, nextID, slot, watch, rdpc, rderr, peerClosed, ch, err, sendOK, cbk, closepc, onstop, oncancel, sent, blocked>>

PeerGarbage ==       \* an undecodable record: the reader stops the client
  /\ "garbage" \in Faults /\ nrecv < MaxRecv /\ ~peerClosed /\ rdpc = "recv"
  /\ nrecv' = nrecv + 1 /\ rdpc' = "fail" /\ rderr' = "decode"
  /\ UNCHANGED <<op, nextID, slot, watch, dq, peerClosed, ch, err, sendOK, cbk, closepc, onstop, oncancel, sent, blocked>>

PeerClose ==
  /\ "peerclose" \in Faults /\ ~peerClosed
  /\ peerClosed' = TRUE
  /\ IF rdpc = "recv" THEN rdpc' = "fail" /\ rderr' = "eof" ELSE UNCHANGED <<rdpc, rderr>>
  /\ UNCHANGED <<op, nextID, slot, watch, dq, nrecv, ch, err, sendOK, cbk, closepc, onstop, oncancel, sent, blocked>>

RecvError ==
  /\ "recverr" \in Faults /\ ~peerClosed /\ rdpc = "recv"
  /\ peerClosed' = TRUE /\ rdpc' = "fail" /\ rderr' = "err"
  /\ UNCHANGED <<op, nextID, slot, watch, dq, nrecv, ch, err, sendOK, cbk, closepc, onstop, oncancel, sent, blocked>>

SendFails ==
  /\ "sendfail" \in Faults /\ sendOK /\ sendOK' = FALSE
  /\ UNCHANGED <<op, nextID, slot, watch, rdpc, rderr, dq, nrecv, peerClosed, ch, err, cbk, closepc, onstop, oncancel, sent, blocked>>

SendHeals ==   \* the failure was transient: a failed Send does not stop the client, later ones succeed again
  /\ "sendheal" \in Faults /\ ~sendOK /\ sendOK' = TRUE
  /\ UNCHANGED <<op, nextID, slot, watch, rdpc, rderr, dq, nrecv, peerClosed, ch, err, cbk, closepc, onstop, oncancel, sent, blocked>>

(***************************************************************************)
(* stopLocked(cause): close the channel, cancel callbacks and every        *)
(* pending request's context, record the cause; OnStop runs after unlock.  *)
(***************************************************************************)
StopEffect(cause) ==
  /\ ch' = "nil" /\ err' = cause /\ onstop' = onstop + 1
  /\ watch' = [i \in DOMAIN watch |-> IF slot[i].st = "pending" /\ watch[i] = "armed" THEN "gate" ELSE watch[i]]

RdFail ==
  /\ rdpc = "fail"
  /\ IF ch = "open" THEN StopEffect(rderr) ELSE UNCHANGED <<ch, err, onstop, watch>>
  /\ rdpc' = "done"
  /\ UNCHANGED <<op, nextID, slot, rderr, dq, nrecv, peerClosed, sendOK, cbk, closepc, oncancel, sent, blocked>>

Close ==    \* Client.Close: stop, then wait for reader, deliveries and callbacks
  /\ "close" \in Faults /\ closepc = "none"
  /\ IF ch = "open" THEN StopEffect("closed") ELSE UNCHANGED <<ch, err, onstop, watch>>
  /\ closepc' = "wait"
  \* a pipe-like channel hands the blocked reader a closing error
  /\ IF RecvUnblocks /\ rdpc = "recv" /\ ch = "open" THEN rdpc' = "fail" /\ rderr' = "closedch" ELSE UNCHANGED <<rdpc, rderr>>
  /\ UNCHANGED <<op, nextID, slot, dq, nrecv, peerClosed, sendOK, cbk, oncancel, sent, blocked>>

DoneZero == rdpc = "done" /\ (\A i \in 1..Len(dq) : dq[i].st = "done") /\ (\A c \in DOMAIN cbk : cbk[c] = "done")
CloseReturn ==
  /\ closepc = "wait" /\ DoneZero
  /\ closepc' = "ret"
  /\ UNCHANGED <<op, nextID, slot, watch, rdpc, rderr, dq, nrecv, peerClosed, ch, err, sendOK, cbk, onstop, oncancel, sent, blocked>>

(***************************************************************************)
(* Delivery goroutine: one lock hold for the whole record.                 *)
(***************************************************************************)
RECURSIVE DeliverItems(_, _, _, _)
\* returns <<slot, watch, cbk, blocked>> after delivering items in order
DeliverItems(items, sl, cb, bl) ==
  IF items = <<>> \/ bl # "none" THEN <<sl, cb, bl>>
  ELSE LET x == Head(items) IN
       IF x.t = "reply" \/ x.t = "bad"
       THEN IF x.id \in DOMAIN sl /\ sl[x.id].st = "pending"
            THEN DeliverItems(Tail(items), [sl EXCEPT ![x.id].st = "filled", ![x.id].by = "reply", ![x.id].fills = @ + 1], cb, bl)
            ELSE DeliverItems(Tail(items), sl, cb, bl)      \* unknown or already completed id: discarded
       \* a server-initiated request goes to the callback handler - also one that fails validation ("badcall": its id
       \* may well equal the id of a pending request of ours; it is a request all the same, never a reply)
       ELSE IF x.t \in {"call", "badcall"} /\ HasCallback /\ ch = "open"
            THEN DeliverItems(Tail(items), sl, [i \in DOMAIN cb \cup {x.id} |-> IF i = x.id THEN "run" ELSE cb[i]], bl)
            ELSE DeliverItems(Tail(items), sl, cb, bl)

DeliverMsg(m) ==
  /\ m \in 1..Len(dq) /\ dq[m].st = "gate"
  /\ LET r == DeliverItems(dq[m].items, slot, cbk, blocked) IN
     /\ slot' = r[1] /\ cbk' = r[2] /\ blocked' = r[3]
     \* Response.wait cancels the pending context: the watcher wakes and parks at its gate
     /\ watch' = [i \in DOMAIN watch |-> IF r[1][i].st = "filled" /\ slot[i].st = "pending" /\ watch[i] = "armed" THEN "gate" ELSE watch[i]]
     /\ op' = Returned(op, r[1])
  /\ dq' = [dq EXCEPT ![m].st = "done"]
  /\ UNCHANGED <<nextID, rdpc, rderr, nrecv, peerClosed, ch, err, sendOK, closepc, onstop, oncancel, sent>>

(***************************************************************************)
(* Context watcher (waitComplete).                                         *)
(***************************************************************************)
WatcherFire(id) ==
  /\ id \in DOMAIN watch /\ watch[id] = "gate"
  /\ watch' = [watch EXCEPT ![id] = "gone"]
  /\ IF slot[id].st = "pending"
     THEN /\ slot' = [slot EXCEPT ![id].st = "filled", ![id].by = "ctx", ![id].fills = @ + 1]
          /\ oncancel' = [i \in DOMAIN oncancel \cup {id} |-> IF i = id THEN (IF i \in DOMAIN oncancel THEN oncancel[i] + 1 ELSE 1) ELSE oncancel[i]]
          /\ op' = Returned(op, [slot EXCEPT ![id].st = "filled"])
     ELSE UNCHANGED <<slot, oncancel, op>>      \* too late: a reply was delivered first
  /\ UNCHANGED <<nextID, rdpc, rderr, dq, nrecv, peerClosed, ch, err, sendOK, cbk, closepc, onstop, sent, blocked>>

(***************************************************************************)
(* Callback goroutines.                                                    *)
(***************************************************************************)
CbReturn(c) ==   \* the OnCallback handler returns; the goroutine parks before taking the lock
  /\ c \in DOMAIN cbk /\ cbk[c] = "run" /\ cbk' = [cbk EXCEPT ![c] = "gate"]
  /\ UNCHANGED <<op, nextID, slot, watch, rdpc, rderr, dq, nrecv, peerClosed, ch, err, sendOK, closepc, onstop, oncancel, sent, blocked>>
CbReply(c) ==    \* send the reply unless the client has stopped
  /\ c \in DOMAIN cbk /\ cbk[c] = "gate" /\ cbk' = [cbk EXCEPT ![c] = "done"]
  /\ sent' = IF err = "none" /\ sendOK THEN Append(sent, [op |-> "cbreply", ids |-> <<c>>]) ELSE sent
  /\ UNCHANGED <<op, nextID, slot, watch, rdpc, rderr, dq, nrecv, peerClosed, ch, err, sendOK, closepc, onstop, oncancel, blocked>>

OpSpace == OpNames
IdSpace == 1..(TotalCalls + 1)
DSpace  == 1..MaxRecv
CbSpace == {7, 1}

Next ==
  \/ \E o \in OpSpace : StartOp(o)
  \/ \E o \in OpSpace : OpReq(o)
  \/ \E o \in OpSpace : OpSend(o)
  \/ \E o \in OpSpace : CtxEnd(o)
  \/ \E r \in Records : PeerDeliver(r)
  \/ PeerGarbage
  \/ PeerClose
  \/ RecvError
  \/ SendFails
  \/ SendHeals
  \/ RdFail
  \/ Close
  \/ CloseReturn
  \/ \E m \in DSpace : DeliverMsg(m)
  \/ \E i \in IdSpace : WatcherFire(i)
  \/ \E c \in CbSpace : CbReturn(c)
  \/ \E c \in CbSpace : CbReply(c)

Spec == Init /\ [][Next]_vars
Internal == (\E o \in OpSpace : OpReq(o) \/ OpSend(o)) \/ RdFail \/ CloseReturn \/ (\E m \in DSpace : DeliverMsg(m))
            \/ (\E i \in IdSpace : WatcherFire(i)) \/ (\E c \in CbSpace : CbReturn(c) \/ CbReply(c))
FairSpec == Spec /\ WF_vars(Internal)

(***************************************************************************)
(* Properties in implementation vocabulary.                                *)
(***************************************************************************)
\* C04: an id is never shared by two requests; each slot is written at most once
C04_UniqueIds == \A o1, o2 \in OpNames : o1 # o2 => SeqToSet(op[o1].ids) \cap SeqToSet(op[o2].ids) = {}
C04_FillOnce  == \A i \in DOMAIN slot : slot[i].fills <= 1
C04_NoBlock   == blocked = "none"
\* C05: exactly-once completion
C05_RetHasOutcome == \A o \in OpNames : op[o].pc = "ret" => op[o].res # "-"
C05_ReplyWinsOnlyIfDelivered ==
  \A i \in DOMAIN slot : slot[i].st = "filled" => slot[i].by \in {"reply", "ctx"}
C05_NoSendAfterStop == [][\A o \in OpNames : (err # "none" /\ op[o].pc = "send" /\ op'[o].pc # "send") => sent' = sent]_vars
C05_OnStopOnce == onstop <= 1 /\ (err # "none" <=> onstop = 1)
C05_OnCancelOnce == \A i \in DOMAIN oncancel : oncancel[i] = 1 /\ slot[i].by = "ctx"
C05_OnCancelForEveryUnanswered == \A i \in DOMAIN slot : (slot[i].st = "filled" /\ slot[i].by = "ctx") => i \in DOMAIN oncancel
C05_CloseAfterCallbacks == closepc = "ret" => (\A c \in DOMAIN cbk : cbk[c] = "done") /\ rdpc = "done"
\* after a stop cause every pending request is completed once its watcher ran
C05_NothingPendingAtRest ==
  (err # "none" /\ \A i \in DOMAIN watch : watch[i] # "gate") => \A i \in DOMAIN slot : slot[i].st = "filled"
C05_AllReturn == \A o \in OpNames : (op[o].pc \in {"req", "send", "wait"} /\ (err # "none" \/ op[o].ctx)) ~> op[o].pc = "ret"

TypeOK == /\ rdpc \in {"recv", "fail", "done"} /\ ch \in {"open", "nil"} /\ closepc \in {"none", "wait", "ret"}

View == <<op, nextID, slot, watch, rdpc, rderr, dq, nrecv, peerClosed, ch, err, sendOK, cbk, closepc, onstop, oncancel, blocked>>
====================================================================================
