-------------------------------- MODULE ServerImpl --------------------------------
(***************************************************************************)
(* The jrpc2 Server as the code runs it (server.go at the repaired pinned  *)
(* commit): one action per critical section of the Go code, one process    *)
(* per goroutine.  Variables are the abstract projection of the struct     *)
(* fields named in the property anchors (inq, work, nbar, sem, used, call, *)
(* callID, ch, err, wg).  Every defect found at the pinned commit is a     *)
(* disjunct guarded by a switch in the constant record Fixed, so the same  *)
(* module documents the pinned commit (switch FALSE) and the repaired tree *)
(* (switch TRUE).                                                          *)
(*                                                                         *)
(* Granularity: a goroutine is parked at a gate (vhook.Point) before every *)
(* lock acquisition; an action here is "release the gate and run until the *)
(* next gate or durable block".  Steps that happen without passing a gate  *)
(* (a semaphore waiter being granted, a goroutine reaching its next gate,  *)
(* a batch with nothing to report finishing) are folded into the action    *)
(* that causes them.                                                       *)
(***************************************************************************)
EXTENDS Naturals, Sequences, FiniteSets, TLC

CONSTANTS Pool,          \* set of inbound records the peer may send
          MaxIn,         \* bound on inbound records
          Conc,          \* ServerOptions.Concurrency
          AllowPush,     \* ServerOptions.AllowPush
          MaxPush,       \* bound on Callback/Notify invocations
          MaxCancel,     \* bound on CancelRequest invocations
          Ids,           \* ids CancelRequest may name
          RecvUnblocks,  \* does Close() on the channel unblock a pending Recv?
          Faults,        \* subset of {"stop","peerclose","recverr","sendfail","restart","baseend"}
          Fixed          \* record of BOOLEAN switches F1, F23, F4, F7, F9, F14

(***************************************************************************)
(* Inbound records.                                                        *)
(*   [kind |-> "garbage"] | [kind |-> "empty"]                             *)
(*   [kind |-> "msg", arr |-> BOOLEAN, mem |-> Seq(member)]                *)
(* member = [k |-> "call"|"note"|"inv"|"reply", id |-> Nat (0 = absent),   *)
(*           m |-> "ok"|"nf"|"rpc"|"info", notey |-> BOOLEAN]              *)
(* "inv" is a member that fails static validation; notey says whether      *)
(* isNotification() holds for it (method present, no id) - such members    *)
(* are retained by stopLocked.  "reply" is a reply-shaped member.          *)
(***************************************************************************)

VARIABLES
  nin,        \* number of records sent by the peer so far
  peerClosed, \* peer closed its end (EOF pending for the reader)
  rdbuf,      \* what Recv handed to the reader: None | record | eof | err
  rdpc,       \* reader: "recv" (blocked in Recv) | "proc" (at gate srv.read.lock) | "done"
  inq,        \* Server.inq: sequence of [arr, mem: Seq(src)]
  work,       \* Server.work: "empty" | "token" | "closed"
  dpc,        \* dispatcher: "lock" (at gate srv.next.lock/relock) | "sleep" (<-s.work)
              \*           | "barrier" (at gate srv.barrier.wait) | "done"
  dbatch,     \* batch held by the dispatcher between dequeue and barrier
  nbar,       \* Server.nbar counter
  task,       \* src -> task record (all members ever dispatched)
  bat,        \* sequence of dispatched batches [mem: Seq(src), arr, live, sent]
  sem,        \* weight held in Server.sem
  semq,       \* FIFO of src waiting in Server.sem
  used,       \* Server.used: id -> src owning the reservation
  calls,      \* Server.call: callback id -> caller
  callID,     \* Server.callID
  cb,         \* caller -> [id, st: "wait"|"done", res]   (Callback invocations)
  cbw,        \* callback id -> "armed" | "gate" | "gone"  (waitCallback goroutine)
  npush,      \* pushes issued so far
  ch,         \* Server.ch: "open" | "nil"
  err,        \* Server.err: "none" | "stopped" | "eof" | "closed" | "err"
  sendOK,     \* FALSE once the channel's Send fails
  wsret,      \* WaitStatus has returned (generation finished)
  gen,        \* generation (number of Start calls)
  ncancel,    \* CancelRequest invocations so far
  crashed,    \* "none" or the name of the crash (only reachable with a Fixed switch off)
  basedone,   \* the context ServerOptions.NewContext hands out has ended (every request context derives from it)
  out         \* records sent (observation only; kept out of VIEW)

vars == <<nin, peerClosed, rdbuf, rdpc, inq, work, dpc, dbatch, nbar, task, bat, sem, semq,
          used, calls, callID, cb, cbw, npush, ch, err, sendOK, wsret, gen, ncancel, crashed, basedone, out>>

None  == [kind |-> "none"]
EOFr  == [kind |-> "eof"]
ERRr  == [kind |-> "err"]
CLSr  == [kind |-> "closed"]
EmptyFn == [x \in {} |-> 0]

Alive == crashed = "none"
\* a reply is inside Channel.Send and deliver holds the server's lock around it (see SendBegin / SendEnd)
InSend == \E b \in 1..Len(bat) : bat[b].busy
Srcs  == DOMAIN task

RECURSIVE SeqToSet(_)
SeqToSet(s) == IF s = <<>> THEN {} ELSE {Head(s)} \cup SeqToSet(Tail(s))
SelectSeq2(s, T(_)) == SelectSeq(s, T)

(***************************************************************************)
(* Initial state: Start has been called on a fresh channel; the reader is  *)
(* blocked in Recv and the dispatcher is parked before its first lock.     *)
(***************************************************************************)
Init ==
  /\ nin = 0 /\ peerClosed = FALSE /\ rdbuf = None /\ rdpc = "recv"
  /\ inq = <<>> /\ work = "empty" /\ dpc = "lock" /\ dbatch = None /\ nbar = 0
  /\ task = EmptyFn /\ bat = <<>> /\ sem = 0 /\ semq = <<>>
  /\ used = EmptyFn /\ calls = EmptyFn /\ callID = 1 /\ cb = EmptyFn /\ cbw = EmptyFn /\ npush = 0
  /\ ch = "open" /\ err = "none" /\ sendOK = TRUE /\ wsret = FALSE /\ gen = 1
  /\ ncancel = 0 /\ crashed = "none" /\ basedone = FALSE /\ out = <<>>

(***************************************************************************)
(* Helpers on tasks.                                                       *)
(***************************************************************************)
IsNoteTask(t)  == t.id = 0 /\ t.k # "inv" /\ t.k # "reply"
Finished(t)    == t.st \in {"fail", "done"}

\* Cancel the context of the task that owns reservation id (if any).
CancelOwner(tk, us, id) ==
  IF id \in DOMAIN us /\ us[id] \in DOMAIN tk
  THEN [tk EXCEPT ![us[id]].cx = TRUE] ELSE tk

\* Semaphore waiters whose context is done leave the queue at once with ctx.Err()
\* (no gate on that path), and freed weight is granted to the FIFO head.
RECURSIVE Grant(_, _, _)
Grant(tk, q, s) ==
  IF q # <<>> /\ s < Conc
  THEN Grant([tk EXCEPT ![Head(q)].st = "run"], Tail(q), s + 1)
  ELSE <<tk, q, s>>

DropCancelled(tk, q) ==
  LET gone == {x \in SeqToSet(q) : tk[x].cx}
      tk2  == [x \in DOMAIN tk |-> IF x \in gone THEN [tk[x] EXCEPT !.st = "done", !.res = "cancelled"] ELSE tk[x]]
      q2   == SelectSeq(q, LAMBDA x : x \notin gone)
  IN  <<tk2, q2>>

\* Settle(tk, q, s): result of letting the semaphore react to cancellations/releases.
Settle(tk, q, s) ==
  LET d == DropCancelled(tk, q) IN Grant(d[1], d[2], s)

(***************************************************************************)
(* stopLocked(cause).                                                      *)
(***************************************************************************)
IsNoteMember(x) == (x.k = "note") \/ (x.k = "inv" /\ x.id = 0 /\ x.notey)

RECURSIVE KeepNotes(_)
KeepNotes(q) ==   \* retained notifications, one batch each
  IF q = <<>> THEN <<>>
  ELSE LET m == Head(q)
           keep == SelectSeq(m.mem, LAMBDA x : IsNoteMember(x.v))
       IN  [i \in 1..Len(keep) |-> [arr |-> m.arr, mem |-> <<keep[i]>>]] \o KeepNotes(Tail(q))

\* ids of queued calls are cancelLocked()ed: this may hit a *running* call with the same id.
RECURSIVE QueuedCallIds(_)
QueuedCallIds(q) ==
  IF q = <<>> THEN {}
  ELSE {Head(q).mem[i].v.id : i \in {j \in 1..Len(Head(q).mem) :
            ~IsNoteMember(Head(q).mem[j].v) /\ Head(q).mem[j].v.id # 0}} \cup QueuedCallIds(Tail(q))

StopEffect(cause) ==
  LET tk1 == [x \in DOMAIN task |->
                 IF \E id \in DOMAIN used : used[id] = x THEN [task[x] EXCEPT !.cx = TRUE] ELSE task[x]]
      st  == Settle(tk1, semq, sem)
  IN  /\ ch' = "nil" /\ err' = cause
      /\ inq' = KeepNotes(inq)
      /\ work' = "closed"
      /\ task' = st[1] /\ semq' = st[2] /\ sem' = st[3]
      /\ used' = EmptyFn
      /\ cbw' = [id \in DOMAIN cbw |-> IF id \in DOMAIN calls /\ cbw[id] = "armed" THEN "gate" ELSE cbw[id]]
      \* a pipe-like channel hands the blocked reader a closing error
      /\ IF RecvUnblocks /\ rdpc = "recv"
         THEN rdbuf' = CLSr /\ rdpc' = "proc"
         ELSE UNCHANGED <<rdbuf, rdpc>>
      \* the dispatcher sleeping on <-s.work is woken by close(s.work)
      /\ dpc' = IF dpc = "sleep" THEN "lock" ELSE dpc

NoStopEffect == UNCHANGED <<ch, err, inq, work, task, semq, sem, used, cbw, rdbuf, rdpc, dpc>>

Stop ==
  /\ Alive /\ ~InSend /\ "stop" \in Faults /\ ~wsret
  /\ IF ch = "open" THEN StopEffect("stopped") ELSE NoStopEffect
  /\ UNCHANGED <<basedone, nin, peerClosed, dbatch, nbar, bat, calls, callID, cb, npush, sendOK, wsret, gen, ncancel, crashed, out>>

(***************************************************************************)
(* The peer.                                                               *)
(***************************************************************************)
PeerSend(m) ==
  /\ Alive /\ nin < MaxIn /\ ~peerClosed /\ rdpc = "recv" /\ rdbuf = None
  /\ rdbuf' = [m EXCEPT !.n = nin + 1] /\ rdpc' = "proc" /\ nin' = nin + 1
  /\ UNCHANGED <<basedone, peerClosed, inq, work, dpc, dbatch, nbar, task, bat, sem, semq, used, calls, callID,
                 cb, cbw, npush, ch, err, sendOK, wsret, gen, ncancel, crashed, out>>

PeerClose ==
  /\ Alive /\ "peerclose" \in Faults /\ ~peerClosed
  /\ peerClosed' = TRUE
  /\ IF rdpc = "recv" /\ rdbuf = None THEN rdbuf' = EOFr /\ rdpc' = "proc" ELSE UNCHANGED <<rdbuf, rdpc>>
  /\ UNCHANGED <<basedone, nin, inq, work, dpc, dbatch, nbar, task, bat, sem, semq, used, calls, callID,
                 cb, cbw, npush, ch, err, sendOK, wsret, gen, ncancel, crashed, out>>

RecvError ==   \* the channel's Recv fails with a non-EOF error
  /\ Alive /\ "recverr" \in Faults /\ ~peerClosed /\ rdpc = "recv" /\ rdbuf = None
  /\ peerClosed' = TRUE /\ rdbuf' = ERRr /\ rdpc' = "proc"
  /\ UNCHANGED <<basedone, nin, inq, work, dpc, dbatch, nbar, task, bat, sem, semq, used, calls, callID,
                 cb, cbw, npush, ch, err, sendOK, wsret, gen, ncancel, crashed, out>>

RecvClosing ==   \* Recv fails with a closing-class error (channel.IsErrClosing) although the server did not close the channel
  /\ Alive /\ "recvclosing" \in Faults /\ ~peerClosed /\ rdpc = "recv" /\ rdbuf = None
  /\ peerClosed' = TRUE /\ rdbuf' = CLSr /\ rdpc' = "proc"
  /\ UNCHANGED <<basedone, nin, inq, work, dpc, dbatch, nbar, task, bat, sem, semq, used, calls, callID,
                 cb, cbw, npush, ch, err, sendOK, wsret, gen, ncancel, crashed, out>>

SendFails ==   \* from now on the channel's Send reports an error
  /\ Alive /\ "sendfail" \in Faults /\ sendOK
  /\ sendOK' = FALSE
  /\ UNCHANGED <<basedone, nin, peerClosed, rdbuf, rdpc, inq, work, dpc, dbatch, nbar, task, bat, sem, semq, used,
                 calls, callID, cb, cbw, npush, ch, err, wsret, gen, ncancel, crashed, out>>

Emit(rec) == IF sendOK THEN Append(out, rec) ELSE out

(***************************************************************************)
(* The reader goroutine (Server.read): one critical section per record.    *)
(***************************************************************************)
\* After a record has been processed the reader goes back to Recv; if the
\* peer has closed meanwhile it gets EOF at once and parks at the gate again.
ReaderNext == IF peerClosed THEN <<EOFr, "proc">> ELSE <<None, "recv">>

\* Wrap members with their source position: n = record ordinal, i = position.
Wrap(m) == [i \in 1..Len(m.mem) |-> [src |-> <<m.n, i>>, v |-> m.mem[i]]]

\* filterBatchLocked
IsReply(x)  == x.k = "reply"
Matches(x)  == IsReply(x) /\ x.id \in DOMAIN calls
Dropped(x)  == IsReply(x) /\ ~Matches(x) /\ AllowPush /\ Fixed.F9

RdProcess ==
  /\ Alive /\ ~InSend /\ rdpc = "proc" /\ rdbuf.kind \in {"garbage", "empty", "msg"}
  /\ IF ch = "nil" /\ Fixed.F23
     THEN \* repaired: the reader finds the server stopped and exits
          /\ rdpc' = "done" /\ rdbuf' = None
          /\ UNCHANGED <<inq, work, calls, cb, cbw, crashed, out, dpc>>
     ELSE IF rdbuf.kind \in {"garbage", "empty"}
     THEN \* pushErrorLocked: direct error reply, id null
          /\ IF ch = "nil" THEN crashed' = "F2-nil-channel-in-pushError" /\ out' = out
             ELSE crashed' = crashed /\ out' = Emit([t |-> "direct", code |-> IF rdbuf.kind = "garbage" THEN "-32700" ELSE "-32600"])
          /\ rdbuf' = ReaderNext[1] /\ rdpc' = ReaderNext[2]
          /\ UNCHANGED <<inq, work, calls, cb, cbw, dpc>>
     ELSE LET W    == Wrap(rdbuf)
              hit  == {i \in 1..Len(W) : Matches(W[i].v)}
              \* the first reply for an id wins; a second one in the same record no longer matches
              first == {i \in hit : ~\E j \in hit : j < i /\ W[j].v.id = W[i].v.id}
              keep == SelectSeq(W, LAMBDA x : ~(\E i \in first : W[i].src = x.src) /\ ~Dropped(x.v)
                                               /\ ~(IsReply(x.v) /\ x.v.id \in {W[i].v.id : i \in first} /\ AllowPush /\ Fixed.F9))
              ids  == {W[i].v.id : i \in first}
              q2   == IF keep = <<>> THEN inq ELSE Append(inq, [arr |-> rdbuf.arr, mem |-> keep])
          IN  /\ calls' = [id \in DOMAIN calls \ ids |-> calls[id]]
              /\ cb' = [c \in DOMAIN cb |-> IF cb[c].id \in ids /\ cb[c].st = "wait"
                                            THEN [cb[c] EXCEPT !.st = "done", !.res = "reply"] ELSE cb[c]]
              \* Response.wait() in the waiting Callback cancels the callback context: waitCallback wakes and parks at its
              \* gate.  A callback whose Send failed is not waiting (Callback returned the error at once): nobody cancels.
              /\ cbw' = [id \in DOMAIN cbw |-> IF id \in ids /\ cbw[id] = "armed" /\ (\E c \in DOMAIN cb : cb[c].id = id /\ cb[c].st = "wait")
                                                THEN "gate" ELSE cbw[id]]
              /\ inq' = q2
              /\ IF keep # <<>> /\ Len(q2) = 1
                 THEN IF work = "closed" THEN crashed' = "F3-send-on-closed-work" /\ work' = work /\ dpc' = dpc
                      ELSE /\ crashed' = crashed /\ work' = IF dpc = "sleep" THEN "empty" ELSE "token"
                           /\ dpc' = IF dpc = "sleep" THEN "lock" ELSE dpc
                 ELSE UNCHANGED <<crashed, work, dpc>>
              /\ rdbuf' = ReaderNext[1] /\ rdpc' = ReaderNext[2]
              /\ out' = out
  /\ UNCHANGED <<basedone, nin, peerClosed, dbatch, nbar, task, bat, sem, semq, used, callID, npush, ch, err,
                 sendOK, wsret, gen, ncancel>>

RdFail ==   \* Recv reported an error: stopLocked(err) and exit
  /\ Alive /\ ~InSend /\ rdpc = "proc" /\ rdbuf.kind \in {"eof", "err", "closed"}
  /\ IF ch = "open"
     THEN /\ StopEffect(rdbuf.kind)
          /\ rdbuf' = None /\ rdpc' = "done"     \* overrides the reader part of StopEffect
     ELSE /\ UNCHANGED <<ch, err, inq, work, task, semq, sem, used, cbw, dpc>>
          /\ rdbuf' = None /\ rdpc' = "done"
  /\ UNCHANGED <<basedone, nin, peerClosed, dbatch, nbar, bat, calls, callID, cb, npush, sendOK, wsret, gen,
                 ncancel, crashed, out>>

(***************************************************************************)
(* The dispatcher goroutine (serve / nextRequest / dispatchLocked).        *)
(***************************************************************************)
InBatchDup(mem, i) == mem[i].v.id # 0 /\ \E j \in 1..Len(mem) : j # i /\ mem[j].v.id = mem[i].v.id

\* checkAndAssignLocked: phase 1 (duplicates), phase 2 (method / reservation / assignment)
Assign(mem) ==
  [i \in 1..Len(mem) |->
     LET x   == mem[i].v
         dup == x.id # 0 /\ (InBatchDup(mem, i) \/ x.id \in DOMAIN used)
         base == [k |-> x.k, id |-> x.id, m |-> x.m, cx |-> basedone, rsv |-> FALSE, st |-> "fail", res |-> "-"]   \* setContext: derived from newctx()
     IN  IF dup           THEN [base EXCEPT !.res = "dup"]    \* overrides a validation error
         ELSE IF x.k = "inv"  THEN [base EXCEPT !.res = "inv"]
         ELSE IF x.k = "reply" THEN [base EXCEPT !.res = "emptymethod"]
         ELSE IF x.m \in {"nf", "rpc"} THEN [base EXCEPT !.res = "nf", !.rsv = (x.id # 0)]
         ELSE [base EXCEPT !.st = "todo", !.rsv = (x.id # 0)]]

\* Note: in the code a duplicate id overrides a validation error (old.err and t.err are
\* both overwritten with errDuplicateID), hence the order of the tests above.

DpLock ==   \* nextRequest: take the lock, look at the queue
  /\ Alive /\ ~InSend /\ dpc = "lock"
  /\ IF inq = <<>>
     THEN /\ IF ch = "nil" THEN dpc' = "done"
             ELSE IF work = "token" THEN dpc' = "lock" /\ TRUE ELSE dpc' = "sleep"
          /\ work' = IF ch # "nil" /\ work = "token" THEN "empty" ELSE work
          /\ UNCHANGED <<inq, dbatch, used, task>>
     ELSE LET b   == Head(inq)
              T   == Assign(b.mem)
              new == {b.mem[i].src : i \in 1..Len(b.mem)}
          IN  /\ inq' = Tail(inq)
              /\ task' = [s \in DOMAIN task \cup new |->
                            IF s \in new THEN T[CHOOSE i \in 1..Len(b.mem) : b.mem[i].src = s] ELSE task[s]]
              /\ used' = [id \in DOMAIN used \cup {T[i].id : i \in {j \in 1..Len(T) : T[j].rsv}} |->
                            IF id \in DOMAIN used THEN used[id]
                            ELSE b.mem[CHOOSE i \in 1..Len(T) : T[i].rsv /\ T[i].id = id].src]
              /\ dbatch' = [mem |-> [i \in 1..Len(b.mem) |-> b.mem[i].src], arr |-> b.arr,
                            live |-> (ch = "open"), sent |-> FALSE, busy |-> FALSE]
              /\ dpc' = "barrier"
              /\ work' = work
  /\ UNCHANGED <<basedone, nin, peerClosed, rdbuf, rdpc, nbar, bat, sem, semq, calls, callID, cb, cbw, npush,
                 ch, err, sendOK, wsret, gen, ncancel, crashed, out>>

TodoNotes(B) == Cardinality({i \in 1..Len(B.mem) : task[B.mem[i]].st = "todo" /\ IsNoteTask(task[B.mem[i]])})
Reportable(t) == t.id # 0 \/ t.res = "inv"

\* waitForBarrier + spawn of the batch goroutine.  A batch whose members all
\* failed statically goes straight to deliver (gate) or finishes (nothing to report).
DpBarrier ==
  /\ Alive /\ ~InSend /\ dpc = "barrier" /\ nbar = 0
  /\ nbar' = TodoNotes(dbatch)
  /\ bat' = Append(bat, dbatch)
  /\ dbatch' = None /\ dpc' = "lock"
  /\ UNCHANGED <<basedone, nin, peerClosed, rdbuf, rdpc, inq, work, task, sem, semq, used, calls, callID, cb, cbw,
                 npush, ch, err, sendOK, wsret, gen, ncancel, crashed, out>>

(***************************************************************************)
(* Handler goroutines (invoke).                                            *)
(***************************************************************************)
BatchOf(s) == CHOOSE b \in 1..Len(bat) : \E i \in 1..Len(bat[b].mem) : bat[b].mem[i] = s
Spawned(s) == \E b \in 1..Len(bat) : \E i \in 1..Len(bat[b].mem) : bat[b].mem[i] = s

WkAcquire(s) ==   \* release gate srv.invoke.acquire: sem.Acquire(ctx, 1)
  /\ Alive /\ s \in Srcs /\ Spawned(s) /\ task[s].st = "todo"
  /\ IF task[s].cx
     THEN \* context already done: Acquire fails without taking a slot
          /\ task' = [task EXCEPT ![s].st = "done", ![s].res = "cancelled"]
          /\ UNCHANGED <<sem, semq>>
     ELSE IF sem < Conc /\ semq = <<>>
     THEN /\ task' = [task EXCEPT ![s].st = "run"] /\ sem' = sem + 1 /\ semq' = semq
     ELSE /\ task' = [task EXCEPT ![s].st = "semwait"] /\ semq' = Append(semq, s) /\ sem' = sem
  /\ nbar' = IF task[s].cx /\ IsNoteTask(task[s]) THEN nbar - 1 ELSE nbar
  /\ UNCHANGED <<basedone, nin, peerClosed, rdbuf, rdpc, inq, work, dpc, dbatch, bat, used, calls, callID, cb, cbw,
                 npush, ch, err, sendOK, wsret, gen, ncancel, crashed, out>>

Outcomes == {"ok", "err"}

HReturn(s, o) ==  \* the handler returns; slot released; FIFO head granted
  /\ Alive /\ s \in Srcs /\ task[s].st = "run"
  /\ LET tk1 == [task EXCEPT ![s].st = "done", ![s].res = o]
         st  == Settle(tk1, semq, sem - 1)
     IN  task' = st[1] /\ semq' = st[2] /\ sem' = st[3]
  /\ nbar' = IF IsNoteTask(task[s]) THEN nbar - 1 ELSE nbar
  /\ UNCHANGED <<basedone, nin, peerClosed, rdbuf, rdpc, inq, work, dpc, dbatch, bat, used, calls, callID, cb, cbw,
                 npush, ch, err, sendOK, wsret, gen, ncancel, crashed, out>>

(***************************************************************************)
(* deliver.                                                                *)
(***************************************************************************)
AllFinished(b) == \A i \in 1..Len(bat[b].mem) : Finished(task[bat[b].mem[i]])
Reps(b)        == {i \in 1..Len(bat[b].mem) : Reportable(task[bat[b].mem[i]])}
\* "executed" as deliver sees it: the reply releases the reservation
Executed(t)    == IF Fixed.F1 THEN t.rsv ELSE t.res \notin {"dup", "inv", "nf", "emptymethod"}

ReplyItem(t) == [id |-> t.id, res |-> t.res]

Deliver(b) ==
  /\ Alive /\ ~InSend /\ b \in 1..Len(bat) /\ ~bat[b].sent /\ ~bat[b].busy /\ AllFinished(b)
  /\ LET B    == bat[b]
         rep  == Reps(b)
         rel  == {task[B.mem[i]].id : i \in {j \in rep : Executed(task[B.mem[j]]) /\ task[B.mem[j]].id \in DOMAIN used}}
     IN  IF rep = {} \/ (~B.live /\ Fixed.F4)
         THEN \* nothing to report, or dispatched after shutdown: no lock taken
              /\ bat' = [bat EXCEPT ![b].sent = TRUE]
              /\ UNCHANGED <<used, task, semq, sem, crashed, out>>
         ELSE \* cancelLocked(id) for every executed response: cancels whoever owns the id NOW
              LET tk1 == [x \in DOMAIN task |->
                            IF \E id \in rel : used[id] = x THEN [task[x] EXCEPT !.cx = TRUE] ELSE task[x]]
                  st  == Settle(tk1, semq, sem)
              IN  /\ used' = [id \in DOMAIN used \ rel |-> used[id]]
                  /\ task' = st[1] /\ semq' = st[2] /\ sem' = st[3]
                  /\ bat' = [bat EXCEPT ![b].sent = TRUE]
                  /\ IF ~B.live THEN crashed' = "F4-nil-channel-in-deliver" /\ out' = out
                     ELSE /\ crashed' = crashed
                          /\ out' = Emit([t |-> "reply", arr |-> B.arr,
                                          items |-> [k \in 1..Cardinality(rep) |->
                                             ReplyItem(task[B.mem[CHOOSE i \in rep : Cardinality({j \in rep : j < i}) = k - 1]])]])
  /\ UNCHANGED <<basedone, nin, peerClosed, rdbuf, rdpc, inq, work, dpc, dbatch, nbar, calls, callID, cb, cbw, npush,
                 ch, err, sendOK, wsret, gen, ncancel>>

\* the same action named by the first member of the batch (what the harness can key on)
DeliverS(s) == \E b \in 1..Len(bat) : bat[b].mem[1] = s /\ Deliver(b)

(***************************************************************************)
(* The same delivery in two steps ("holdsend" \in Faults): the reply is    *)
(* inside Channel.Send for a while, and deliver holds the server's lock    *)
(* around it.  Whatever takes that lock (the reader's critical section,    *)
(* the dispatcher, other deliveries, Stop, CancelRequest, pushes, callback *)
(* timeouts, WaitStatus, Start) waits; what does not (a handler returning  *)
(* and giving up its slot, a waiter taking it, the peer, contexts ending)  *)
(* goes on.  The harness holds the goroutine inside Send (holdop/unhold).  *)
(***************************************************************************)
SendBegin(b) ==
  /\ Alive /\ "holdsend" \in Faults /\ ~InSend
  /\ b \in 1..Len(bat) /\ ~bat[b].sent /\ AllFinished(b)
  /\ Reps(b) # {} /\ bat[b].live /\ sendOK
  /\ LET B    == bat[b]
         rep  == Reps(b)
         rel  == {task[B.mem[i]].id : i \in {j \in rep : Executed(task[B.mem[j]]) /\ task[B.mem[j]].id \in DOMAIN used}}
         tk1  == [x \in DOMAIN task |-> IF \E id \in rel : used[id] = x THEN [task[x] EXCEPT !.cx = TRUE] ELSE task[x]]
         st   == Settle(tk1, semq, sem)
     IN  /\ used' = [id \in DOMAIN used \ rel |-> used[id]]
         /\ task' = st[1] /\ semq' = st[2] /\ sem' = st[3]
         /\ bat' = [bat EXCEPT ![b].busy = TRUE]
  /\ UNCHANGED <<basedone, nin, peerClosed, rdbuf, rdpc, inq, work, dpc, dbatch, nbar, calls, callID, cb, cbw, npush,
                 ch, err, sendOK, wsret, gen, ncancel, crashed, out>>
SendEnd(b) ==
  /\ b \in 1..Len(bat) /\ bat[b].busy
  /\ LET B == bat[b]  rep == Reps(b) IN
     /\ bat' = [bat EXCEPT ![b].busy = FALSE, ![b].sent = TRUE]
     /\ out' = Emit([t |-> "reply", arr |-> B.arr,
                     items |-> [k \in 1..Cardinality(rep) |->
                        ReplyItem(task[B.mem[CHOOSE i \in rep : Cardinality({j \in rep : j < i}) = k - 1]])]])
  /\ UNCHANGED <<basedone, nin, peerClosed, rdbuf, rdpc, inq, work, dpc, dbatch, nbar, task, sem, semq, used, calls, callID,
                 cb, cbw, npush, ch, err, sendOK, wsret, gen, ncancel, crashed>>
SendBeginS(s) == \E b \in 1..Len(bat) : bat[b].mem[1] = s /\ SendBegin(b)
SendEndS(s)   == \E b \in 1..Len(bat) : bat[b].mem[1] = s /\ SendEnd(b)

(***************************************************************************)
(* CancelRequest.                                                          *)
(***************************************************************************)
CancelRequest(id) ==
  /\ Alive /\ ~InSend /\ ncancel < MaxCancel /\ ~wsret
  /\ ncancel' = ncancel + 1
  /\ IF id \in DOMAIN used
     THEN LET tk1 == IF used[id] \in DOMAIN task THEN [task EXCEPT ![used[id]].cx = TRUE] ELSE task
              st  == Settle(tk1, semq, sem)
          IN  /\ task' = st[1] /\ semq' = st[2] /\ sem' = st[3]
              /\ used' = IF Fixed.F7 THEN used ELSE [k \in DOMAIN used \ {id} |-> used[k]]
     ELSE UNCHANGED <<task, semq, sem, used>>
  /\ UNCHANGED <<basedone, nin, peerClosed, rdbuf, rdpc, inq, work, dpc, dbatch, nbar, bat, calls, callID, cb, cbw,
                 npush, ch, err, sendOK, wsret, gen, crashed, out>>

(***************************************************************************)
(* The base context (ServerOptions.NewContext) ends: every request context *)
(* is derived from it, so every call and notification in flight sees its   *)
(* context done, semaphore waiters leave the queue, and every later        *)
(* request starts life cancelled (its Acquire fails: no handler runs).     *)
(***************************************************************************)
BaseCtxEnd ==
  /\ Alive /\ "baseend" \in Faults /\ ~basedone /\ ~wsret
  /\ basedone' = TRUE
  /\ LET tk1 == [x \in DOMAIN task |-> IF task[x].st \in {"todo", "semwait", "run"} THEN [task[x] EXCEPT !.cx = TRUE] ELSE task[x]]
         st  == Settle(tk1, semq, sem)
     IN  task' = st[1] /\ semq' = st[2] /\ sem' = st[3]
  \* a notification that was waiting for a slot gives up (Acquire fails) and leaves the barrier
  /\ nbar' = nbar - Cardinality({x \in SeqToSet(semq) : IsNoteTask(task[x])})
  /\ UNCHANGED <<nin, peerClosed, rdbuf, rdpc, inq, work, dpc, dbatch, bat, used, calls, callID, cb, cbw,
                 npush, ch, err, sendOK, wsret, gen, ncancel, crashed, out>>

(***************************************************************************)
(* Server push (pushReq / waitCallback).                                   *)
(***************************************************************************)
Callers == {"cbA", "cbB"}

PushNotify ==
  /\ Alive /\ ~InSend /\ npush < MaxPush /\ ~wsret
  /\ npush' = npush + 1
  /\ out' = IF AllowPush /\ ch = "open" THEN Emit([t |-> "pushnote"]) ELSE out
  /\ UNCHANGED <<basedone, nin, peerClosed, rdbuf, rdpc, inq, work, dpc, dbatch, nbar, task, bat, sem, semq, used,
                 calls, callID, cb, cbw, ch, err, sendOK, wsret, gen, ncancel, crashed>>

PushCall(c) ==
  /\ Alive /\ ~InSend /\ npush < MaxPush /\ ~wsret /\ c \in Callers /\ c \notin DOMAIN cb
  /\ npush' = npush + 1
  /\ IF ~AllowPush
     THEN /\ cb' = [x \in DOMAIN cb \cup {c} |-> IF x = c THEN [id |-> 0, st |-> "done", res |-> "unsupported"] ELSE cb[x]]
          /\ UNCHANGED <<calls, callID, cbw, out>>
     ELSE IF ch = "nil"
     THEN /\ cb' = [x \in DOMAIN cb \cup {c} |-> IF x = c THEN [id |-> 0, st |-> "done", res |-> "connclosed"] ELSE cb[x]]
          /\ UNCHANGED <<calls, callID, cbw, out>>
     ELSE /\ callID' = callID + 1
          /\ calls' = IF ~sendOK /\ Fixed.F14 THEN calls ELSE [x \in DOMAIN calls \cup {callID} |-> IF x = callID THEN c ELSE calls[x]]
          /\ cbw' = [x \in DOMAIN cbw \cup {callID} |-> IF x = callID THEN (IF ~sendOK /\ Fixed.F14 THEN "gate" ELSE "armed") ELSE cbw[x]]
          /\ IF sendOK
             THEN cb' = [x \in DOMAIN cb \cup {c} |-> IF x = c THEN [id |-> callID, st |-> "wait", res |-> "-"] ELSE cb[x]]
             ELSE \* Send failed: pushReq returns the error.  At the pinned commit the registration and its watcher stay
                  \* until the context ends (finding F14: a reply for that id then strands the watcher); repaired, the
                  \* registration is removed and the watcher released at once.
                  cb' = [x \in DOMAIN cb \cup {c} |-> IF x = c THEN [id |-> callID, st |-> "done", res |-> "senderr"] ELSE cb[x]]
          /\ out' = Emit([t |-> "pushcall", id |-> callID])
  /\ IF ~AllowPush \/ ch = "nil" THEN UNCHANGED <<callID>> ELSE TRUE
  /\ UNCHANGED <<basedone, nin, peerClosed, rdbuf, rdpc, inq, work, dpc, dbatch, nbar, task, bat, sem, semq, used,
                 ch, err, sendOK, wsret, gen, ncancel, crashed>>

CbCtxEnd(c) ==   \* the context given to Callback ends (cancel or deadline)
  /\ Alive /\ c \in DOMAIN cb /\ cb[c].id # 0 /\ cb[c].id \in DOMAIN cbw /\ cbw[cb[c].id] = "armed"
  /\ cbw' = [cbw EXCEPT ![cb[c].id] = "gate"]
  /\ UNCHANGED <<basedone, nin, peerClosed, rdbuf, rdpc, inq, work, dpc, dbatch, nbar, task, bat, sem, semq, used,
                 calls, callID, cb, npush, ch, err, sendOK, wsret, gen, ncancel, crashed, out>>

CbTimeout(id) ==  \* waitCallback after <-pctx.Done(): release gate srv.waitcb.lock
  /\ Alive /\ ~InSend /\ id \in DOMAIN cbw /\ cbw[id] = "gate"
  /\ cbw' = [cbw EXCEPT ![id] = "gone"]
  /\ IF id \in DOMAIN calls
     THEN /\ calls' = [x \in DOMAIN calls \ {id} |-> calls[x]]
          /\ cb' = [c \in DOMAIN cb |-> IF cb[c].id = id /\ cb[c].st = "wait"
                                        THEN [cb[c] EXCEPT !.st = "done", !.res = "ctxerr"] ELSE cb[c]]
     ELSE UNCHANGED <<calls, cb>>
  /\ UNCHANGED <<basedone, nin, peerClosed, rdbuf, rdpc, inq, work, dpc, dbatch, nbar, task, bat, sem, semq, used,
                 callID, npush, ch, err, sendOK, wsret, gen, ncancel, crashed, out>>

(***************************************************************************)
(* WaitStatus and restart.                                                 *)
(***************************************************************************)
WgZero == /\ rdpc = "done" /\ dpc = "done"
          /\ \A b \in 1..Len(bat) : bat[b].sent
          /\ dbatch = None

WaitStatusReturn ==
  /\ Alive /\ ~InSend /\ ~wsret /\ WgZero
  /\ wsret' = TRUE
  /\ UNCHANGED <<basedone, nin, peerClosed, rdbuf, rdpc, inq, work, dpc, dbatch, nbar, task, bat, sem, semq, used,
                 calls, callID, cb, cbw, npush, ch, err, sendOK, gen, ncancel, crashed, out>>

Restart ==    \* Start(freshChannel) after WaitStatus returned
  /\ Alive /\ ~InSend /\ "restart" \in Faults /\ wsret /\ gen < 2
  /\ gen' = gen + 1 /\ wsret' = FALSE
  /\ peerClosed' = FALSE /\ rdbuf' = None /\ rdpc' = "recv"
  /\ work' = "empty" /\ dpc' = "lock" /\ ch' = "open" /\ err' = "none" /\ sendOK' = TRUE
  /\ UNCHANGED <<basedone, nin, inq, dbatch, nbar, task, bat, sem, semq, used, calls, callID, cb, cbw, npush,
                 ncancel, crashed, out>>

(***************************************************************************)
\* constant index spaces, so that TLC names each step after its action and arguments
SrcSpace == (1..MaxIn) \X (1..3)
CbIdSpace == 1..(MaxPush + 1)

Next ==
  \/ \E m \in Pool : PeerSend(m)
  \/ PeerClose
  \/ RecvError
  \/ RecvClosing
  \/ SendFails
  \/ RdProcess
  \/ RdFail
  \/ DpLock
  \/ DpBarrier
  \/ \E s \in SrcSpace : WkAcquire(s)
  \/ \E s \in SrcSpace : \E o \in Outcomes : HReturn(s, o)
  \/ \E s \in SrcSpace : DeliverS(s)
  \/ \E s \in SrcSpace : SendBeginS(s)
  \/ \E s \in SrcSpace : SendEndS(s)
  \/ Stop
  \/ \E id \in Ids : CancelRequest(id)
  \/ BaseCtxEnd
  \/ PushNotify
  \/ \E c \in Callers : PushCall(c)
  \/ \E c \in Callers : CbCtxEnd(c)
  \/ \E id \in CbIdSpace : CbTimeout(id)
  \/ WaitStatusReturn
  \/ Restart

Spec == Init /\ [][Next]_vars

\* Fairness for the liveness half of C08: internal steps and handler returns are
\* eventually taken (handlers return once released; the harness always releases).
Internal == RdProcess \/ RdFail \/ DpLock \/ DpBarrier \/ (\E s \in Srcs : WkAcquire(s))
            \/ (\E s \in Srcs : \E o \in Outcomes : HReturn(s, o)) \/ (\E s \in Srcs : DeliverS(s))
            \/ (\E id \in DOMAIN cbw : CbTimeout(id)) \/ WaitStatusReturn \/ (\E s \in Srcs : SendEndS(s))
FairSpec == Spec /\ WF_vars(Internal)

(***************************************************************************)
(* The given properties in implementation vocabulary.                      *)
(***************************************************************************)
NoCrash == crashed = "none"                                               \* C08 / C02

Running  == {s \in Srcs : task[s].st = "run"}
C06_Limit == Cardinality(Running) <= Conc /\ sem = Cardinality(Running)
\* work conservation: nobody waits in the semaphore while a slot is free
C06_WorkConserving == semq # <<>> => sem = Conc
C06_CancelledWaiterNeverRuns ==
  [][\A s \in Srcs : (task[s].st = "semwait" /\ task[s].cx) => (task'[s].st # "run")]_vars

\* C03: a notification of an earlier batch has finished before any member of a later batch starts
C03_Barrier ==
  \A b1, b2 \in 1..Len(bat) : b1 < b2 =>
     \A i \in 1..Len(bat[b1].mem), j \in 1..Len(bat[b2].mem) :
        LET n == task[bat[b1].mem[i]]  x == task[bat[b2].mem[j]] IN
        (IsNoteTask(n) /\ n.st \in {"todo", "semwait", "run"}) => x.st \in {"fail", "todo"}
\* stronger form including the batch still held by the dispatcher: nothing of it runs
C03_HeldBatchIdle ==
  dbatch # None => \A i \in 1..Len(dbatch.mem) : task[dbatch.mem[i]].st \in {"fail", "todo"}

\* C07: reservations are exactly the reserved members whose reply has not been sent
InFlightRsv == {s \in Srcs : task[s].rsv /\ ((Spawned(s) /\ ~bat[BatchOf(s)].sent /\ ~bat[BatchOf(s)].busy) \/ ~Spawned(s))}
C07_Reservations ==
  ch = "open" => /\ \A id \in DOMAIN used : used[id] \in InFlightRsv /\ task[used[id]].id = id
                 /\ \A s \in InFlightRsv : task[s].id \in DOMAIN used /\ used[task[s].id] = s
\* a context is cancelled only by CancelRequest(own id), stop, or its own reply delivery
C07_CancelOnlyTarget ==
  [][\A s \in Srcs : (s \in DOMAIN task' /\ ~task[s].cx /\ task'[s].cx) =>
        \/ ch' = "nil"                                                  \* stop path
        \/ (ncancel' = ncancel + 1 /\ task[s].id \in DOMAIN used /\ used[task[s].id] = s)
        \/ (Spawned(s) /\ (bat'[BatchOf(s)].sent \/ bat'[BatchOf(s)].busy) /\ ~bat[BatchOf(s)].sent /\ ~bat[BatchOf(s)].busy)  \* its own delivery
        \/ (basedone' /\ ~basedone)                                      \* its base context ended
     ]_vars

\* C01 (design level): a batch is sent at most once and only when all its members finished
C01_SendAfterAll == \A b \in 1..Len(bat) : bat[b].sent => AllFinished(b)

\* C08: clean shutdown
C08_QueueEmptyAtExit == wsret => (inq = <<>> /\ Running = {} /\ semq = <<>>)
C08_StatusOnce == wsret => err # "none"
C08_UsedEmptyAfterStop == ch = "nil" => used = EmptyFn
\* every valid notification enqueued before the stop is still handed to its handler:
\* at exit no retained notification is left undispatched (inq empty) and none is "todo"
C08_NotesServed == wsret => \A s \in Srcs : task[s].st \notin {"todo", "semwait"}
C08_Terminates == (ch = "nil" /\ peerClosed) ~> wsret

\* C08 (no goroutine left behind): an armed callback watcher always has a registered call - so that a reply consumed by
\* its waiter, the end of its context or the stop releases it (finding F14)
C08_NoStrandedWatcher == \A id \in DOMAIN cbw : cbw[id] = "armed" => id \in DOMAIN calls
\* C09: callback bookkeeping
C09_CallsMatchWaiters ==
  /\ \A id \in DOMAIN calls : \E c \in DOMAIN cb : cb[c].id = id
  /\ \A c \in DOMAIN cb : cb[c].st = "wait" => (cb[c].id \in DOMAIN calls \/ cbw[cb[c].id] = "gate")
C09_UniqueIds == \A c1, c2 \in DOMAIN cb : (c1 # c2 /\ cb[c1].id # 0 /\ cb[c2].id # 0) => cb[c1].id # cb[c2].id
\* without AllowPush every Callback is refused as unsupported - whatever the state of the connection - and nothing is registered
C09_Unsupported == ~AllowPush => (calls = EmptyFn /\ \A c \in DOMAIN cb : cb[c].res = "unsupported")
\* no reply-shaped member is ever answered on a push server (F9)
C09_NoAnswerToLateReply ==
  AllowPush => \A s \in Srcs : task[s].k # "reply"

TypeOK ==
  /\ rdpc \in {"recv", "proc", "done"} /\ dpc \in {"lock", "sleep", "barrier", "done"}
  /\ work \in {"empty", "token", "closed"} /\ ch \in {"open", "nil"}
  /\ sem \in 0..Conc /\ nbar \in 0..(MaxIn * 3)

\* VIEW: everything except the observation-only output log
View == <<nin, peerClosed, rdbuf, rdpc, inq, work, dpc, dbatch, nbar, task, bat, sem, semq,
          used, calls, callID, cb, cbw, npush, ch, err, sendOK, wsret, gen, ncancel, crashed, basedone>>
====================================================================================
