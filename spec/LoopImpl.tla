--------------------------------- MODULE LoopImpl ---------------------------------
(***************************************************************************)
(* server.Loop as the code runs it (server/loop.go): the accept loop, one  *)
(* goroutine per accepted connection (newService -> Assigner -> Start ->   *)
(* stop watcher -> WaitStatus -> Finish), context cancellation, accepter   *)
(* failure, the three ways a served connection ends (peer close, Stop by   *)
(* the watcher, channel error: Finish is owed in every one of them).  Fixed10 = FALSE re-creates finding F10 (a connection whose    *)
(* service fails to initialise is never closed).                           *)
(***************************************************************************)
EXTENDS Naturals, Sequences, FiniteSets, TLC
CONSTANTS MaxConn, Fixed10, CancelClosesAccepter   \* TRUE: the accepter reports a closing error when ctx ends (NetAccepter)

VARIABLES
  conn,     \* Seq of [st, svc, assignOK, chClosed, calls, running, cause]
            \* st: "new" (goroutine started, before newService) | "svc" (service made, before Assigner)
            \*     | "failed" | "serving" | "exited" (server fully stopped, before Finish) | "finished"
  nsvc,     \* services created so far (each newService call returns a fresh one)
  accpc,    \* "accept" | "wait" (accepter failed: wg.Wait) | "ret"
  accerr,   \* "none" | "closing" | "other"
  ctxdone,
  loopret   \* "none" | "nil" | "err"
vars == <<conn, nsvc, accpc, accerr, ctxdone, loopret>>

Init == conn = <<>> /\ nsvc = 0 /\ accpc = "accept" /\ accerr = "none" /\ ctxdone = FALSE /\ loopret = "none"

Accept == /\ accpc = "accept" /\ Len(conn) < MaxConn
          /\ conn' = Append(conn, [st |-> "new", svc |-> 0, assignOK |-> FALSE, chClosed |-> FALSE, running |-> 0,
                                   watcher |-> "armed", finishes |-> 0, cause |-> "none"])
          /\ UNCHANGED <<nsvc, accpc, accerr, ctxdone, loopret>>

AcceptFail(kind) == /\ accpc = "accept" /\ accerr' = kind /\ accpc' = "wait"
                    /\ UNCHANGED <<conn, nsvc, ctxdone, loopret>>

\* the context ends: every stop watcher wakes (and parks before srv.Stop); a NetAccepter-like
\* accepter reports a closing error
CtxCancel == /\ ~ctxdone /\ ctxdone' = TRUE
             /\ conn' = [i \in 1..Len(conn) |-> IF conn[i].st = "serving" /\ conn[i].watcher = "armed" THEN [conn[i] EXCEPT !.watcher = "gate"] ELSE conn[i]]
             /\ IF CancelClosesAccepter /\ accpc = "accept" THEN accerr' = "closing" /\ accpc' = "wait" ELSE UNCHANGED <<accerr, accpc>>
             /\ UNCHANGED <<nsvc, loopret>>

NewSvc(c) == /\ c \in 1..Len(conn) /\ conn[c].st = "new"
             /\ nsvc' = nsvc + 1
             /\ conn' = [conn EXCEPT ![c].st = "svc", ![c].svc = nsvc + 1]
             /\ UNCHANGED <<accpc, accerr, ctxdone, loopret>>

Assign(c, ok) == /\ c \in 1..Len(conn) /\ conn[c].st = "svc"
                 /\ IF ok THEN conn' = [conn EXCEPT ![c].st = "serving", ![c].assignOK = TRUE,
                                                    ![c].watcher = IF ctxdone THEN "gate" ELSE "armed"]   \* sctx derives from ctx
                    ELSE conn' = [conn EXCEPT ![c].st = "failed", ![c].chClosed = Fixed10]
                 /\ UNCHANGED <<nsvc, accpc, accerr, ctxdone, loopret>>

\* traffic on a served connection: a call whose handler the environment holds
ClientCall(c) == /\ c \in 1..Len(conn) /\ conn[c].st = "serving" /\ conn[c].running = 0 /\ conn[c].cause = "none"
                 /\ conn' = [conn EXCEPT ![c].running = 1]
                 /\ UNCHANGED <<nsvc, accpc, accerr, ctxdone, loopret>>
HandlerRet(c) == /\ c \in 1..Len(conn) /\ conn[c].running = 1
                 /\ conn' = [conn EXCEPT ![c].running = 0]
                 /\ UNCHANGED <<nsvc, accpc, accerr, ctxdone, loopret>>

\* the server's stop causes: the client closes its end / the watcher calls Stop
ClientClose(c) == /\ c \in 1..Len(conn) /\ conn[c].st = "serving" /\ conn[c].cause = "none"
                  /\ conn' = [conn EXCEPT ![c].cause = "closed", ![c].chClosed = TRUE]
                  /\ UNCHANGED <<nsvc, accpc, accerr, ctxdone, loopret>>
\* the connection fails (Recv reports an error other than end-of-stream): the server exits with that error
ConnError(c) == /\ c \in 1..Len(conn) /\ conn[c].st = "serving" /\ conn[c].cause = "none"
                /\ conn' = [conn EXCEPT ![c].cause = "err", ![c].chClosed = TRUE]
                /\ UNCHANGED <<nsvc, accpc, accerr, ctxdone, loopret>>
WatcherStop(c) == /\ c \in 1..Len(conn) /\ conn[c].watcher = "gate"
                  /\ conn' = [conn EXCEPT ![c].watcher = "done",
                                          ![c].cause = IF conn[c].cause = "none" /\ conn[c].st = "serving" THEN "stopped" ELSE conn[c].cause,
                                          ![c].chClosed = TRUE]
                  /\ UNCHANGED <<nsvc, accpc, accerr, ctxdone, loopret>>
\* WaitStatus returns once the server has stopped and every handler has returned; then
\* the deferred cancel wakes the watcher (which parks before a now pointless Stop), and Finish runs
ServerExit(c) == /\ c \in 1..Len(conn) /\ conn[c].st = "serving" /\ conn[c].cause # "none" /\ conn[c].running = 0
                 /\ conn' = [conn EXCEPT ![c].st = "finished", ![c].finishes = @ + 1,
                                         ![c].watcher = IF conn[c].watcher = "armed" THEN "gate" ELSE conn[c].watcher]
                 /\ UNCHANGED <<nsvc, accpc, accerr, ctxdone, loopret>>

AllSettled == \A c \in 1..Len(conn) : conn[c].st \in {"failed", "finished"}
LoopReturn == /\ accpc = "wait" /\ AllSettled
              /\ accpc' = "ret" /\ loopret' = IF accerr = "closing" THEN "nil" ELSE "err"
              /\ UNCHANGED <<conn, nsvc, accerr, ctxdone>>

CSpace == 1..MaxConn
Next == \/ Accept
        \/ \E k \in {"closing", "other"} : AcceptFail(k)
        \/ CtxCancel
        \/ \E c \in CSpace : NewSvc(c)
        \/ \E c \in CSpace : \E ok \in BOOLEAN : Assign(c, ok)
        \/ \E c \in CSpace : ClientCall(c)
        \/ \E c \in CSpace : HandlerRet(c)
        \/ \E c \in CSpace : ClientClose(c)
        \/ \E c \in CSpace : ConnError(c)
        \/ \E c \in CSpace : WatcherStop(c)
        \/ \E c \in CSpace : ServerExit(c)
        \/ LoopReturn
Spec == Init /\ [][Next]_vars

(***************************************************************************)
(* C20 in implementation vocabulary.                                       *)
(***************************************************************************)
FreshService == \A a, b \in 1..Len(conn) : (a # b /\ conn[a].svc # 0) => conn[a].svc # conn[b].svc
FinishOnce == \A c \in 1..Len(conn) : conn[c].finishes <= 1 /\ (conn[c].finishes = 1 => conn[c].assignOK /\ conn[c].cause # "none" /\ conn[c].running = 0)
NoFinishWithoutServer == \A c \in 1..Len(conn) : conn[c].st = "failed" => conn[c].finishes = 0
FailedConnClosed == \A c \in 1..Len(conn) : conn[c].st = "failed" => conn[c].chClosed      \* violated iff ~Fixed10
ExitsLast == accpc = "ret" => AllSettled
RetValue == accpc = "ret" => (loopret = "nil" <=> accerr = "closing")
====================================================================================
