------------------------------- MODULE MCClient -------------------------------
EXTENDS ClientImpl
OpsCall2  == [o1 |-> [kind |-> "call", specs |-> <<FALSE>>], o2 |-> [kind |-> "call", specs |-> <<FALSE>>]]
OpsBatch  == [o1 |-> [kind |-> "call", specs |-> <<FALSE>>], o2 |-> [kind |-> "batch", specs |-> <<FALSE, TRUE, FALSE>>]]
OpsMixed  == [o1 |-> [kind |-> "call", specs |-> <<FALSE>>], o2 |-> [kind |-> "notify", specs |-> <<TRUE>>], o3 |-> [kind |-> "batch", specs |-> <<TRUE, FALSE>>]]
OpsThree  == [o1 |-> [kind |-> "call", specs |-> <<FALSE>>], o2 |-> [kind |-> "batch", specs |-> <<FALSE, FALSE>>], o3 |-> [kind |-> "call", specs |-> <<FALSE>>]]
OpsOne    == [o1 |-> [kind |-> "batch", specs |-> <<FALSE, FALSE>>]]
================================================================================
