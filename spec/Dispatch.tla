-------------------------------- MODULE Dispatch --------------------------------
(***************************************************************************)
(* Reference function for C17: which handler a method name reaches.        *)
(* A name is a sequence of segments joined by "."; a mux is a tree:        *)
(*   [t |-> "map", keys |-> set of names]                                  *)
(*   [t |-> "svc", sub  |-> function from service key (one segment or a    *)
(*                          dotted key) to mux]                            *)
(* Target(mux, builtin, name) is "empty" (empty method name), "info"       *)
(* (rpc.serverInfo), "notfound", or the key path of the handler reached.   *)
(***************************************************************************)
EXTENDS Integers, Sequences, FiniteSets, TLC, Json, IOUtils
CONSTANT MaxSeg

Segs == <<"", "rpc", "RPC", "rpcx", "a", "b", "e9">>      \* "e9" stands for a non-ASCII segment

IsPrefix(p, s) == Len(p) <= Len(s) /\ SubSeq(s, 1, Len(p)) = p

\* Map: exact whole-name match
RECURSIVE Lookup(_, _, _)
Lookup(mux, name, path) ==
  IF mux.t = "map"
  THEN IF name \in mux.keys THEN [k |-> "handler", path |-> path \o <<name>>] ELSE [k |-> "notfound", path |-> <<>>]
  ELSE \* ServiceMap: split at the FIRST dot only; no dot => fail; unknown service => fail.
       \* A service key is a single segment here, so the first dot is the end of the first segment.
       IF Len(name) < 2 THEN [k |-> "notfound", path |-> <<>>]
       ELSE IF \E e \in mux.sub : e.key = <<name[1]>>
            THEN Lookup((CHOOSE e \in mux.sub : e.key = <<name[1]>>).m, SubSeq(name, 2, Len(name)), path \o <<<<name[1]>>>>)
            ELSE [k |-> "notfound", path |-> <<>>]

Target(mux, builtin, name) ==
  IF name = <<"">> THEN [k |-> "empty", path |-> <<>>]                       \* empty method name: not a dispatch question
  ELSE IF builtin /\ Len(name) >= 2 /\ name[1] = "rpc"                       \* begins with "rpc."
  THEN IF name = <<"rpc", "serverInfo">> THEN [k |-> "info", path |-> <<>>] ELSE [k |-> "notfound", path |-> <<>>]
  ELSE Lookup(mux, name, <<>>)

\* every full method name a mux exports
RECURSIVE NamesOf(_)
NamesOf(mux) == IF mux.t = "map" THEN mux.keys
                ELSE UNION {{e.key \o n : n \in NamesOf(e.m)} : e \in mux.sub}

Map(keys) == [t |-> "map", keys |-> keys, sub |-> {}]
Svc(S)    == [t |-> "svc", keys |-> {}, sub |-> S]
E(k, m)   == [key |-> k, m |-> m]
M1 == Map({<<"a">>, <<"a", "b">>, <<"rpc", "x">>, <<"rpc", "serverInfo">>, <<"e9">>, <<"b", "a", "b">>, <<"RPC", "a">>, <<"a", "">>})
M2 == Svc({E(<<"a">>, Map({<<"b">>, <<"b", "a">>, <<"">>})), E(<<"rpc">>, Map({<<"x">>, <<"serverInfo">>})),
           E(<<"">>, Map({<<"a">>})), E(<<"e9">>, Map({<<"e9">>}))})
M3 == Svc({E(<<"a">>, Svc({E(<<"b">>, Map({<<"a">>, <<"rpc", "x">>, <<"b">>}))})), E(<<"b">>, Map({<<"a">>}))})
\* keys that are prefixes of one another, continuing with a byte below "." - the sort order of the
\* composed names differs from the order of the service keys
M4 == Svc({E(<<"math">>, Map({<<"Add">>, <<"Sub">>})), E(<<"math-v2">>, Map({<<"Add">>})), E(<<"a">>, Map({<<"x">>})), E(<<"a+">>, Map({<<"y">>}))})
Muxes == <<M1, M2, M3, M4>>

RECURSIVE Digits(_, _, _)
Digits(i, k, base) == IF k = 0 THEN <<>> ELSE <<Segs[(i % base) + 1]>> \o Digits(i \div base, k - 1, base)
RECURSIVE Pow(_, _)
Pow(b, k) == IF k = 0 THEN 1 ELSE b * Pow(b, k - 1)
RECURSIVE AllNames(_)
AllNames(k) == IF k < 1 THEN <<<<"serverInfo">>, <<"rpc", "serverInfo">>, <<"rpc", "serverInfo", "a">>, <<"math", "Add">>, <<"math-v2", "Add">>, <<"math", "Mul">>, <<"a+", "y">>,
                                \* near misses of the one built-in name: reserved (method not found), never the built-in
                                <<"rpc", "rpc", "serverInfo">>, <<"rpc", "", "serverInfo">>, <<"rpc", "cserverInfo">>, <<"rpc", "p", "r", "c", "serverInfo">>,
                                <<"rpc", "serverinfo">>, <<"rpc", "serverInfo", "">>, <<"rpc", "serverInfoX">>, <<"rpcserverInfo">>, <<"RPC", "serverInfo">>>>
               ELSE AllNames(k - 1) \o [i \in 1..Pow(Len(Segs), k) |-> Digits(i - 1, k, Len(Segs))]

Cell(m, b, n) == LET t == Target(Muxes[m], b, n) IN [mux |-> m, builtin |-> b, name |-> n, k |-> t.k, path |-> t.path]

\* sanity of the reference
ASSUME Target(M1, TRUE, <<"a", "b">>).k = "handler"
ASSUME Target(M1, TRUE, <<"rpc", "x">>).k = "notfound" /\ Target(M1, FALSE, <<"rpc", "x">>).k = "handler"
ASSUME Target(M2, FALSE, <<"a", "b", "a">>).path = << <<"a">>, <<"b", "a">> >>
ASSUME Target(M2, TRUE, <<"a">>).k = "notfound" /\ Target(M2, TRUE, <<"b", "a">>).k = "notfound"
ASSUME Target(M3, TRUE, <<"a", "b", "rpc", "x">>).k = "handler"
ASSUME Target(M2, TRUE, <<"", "a">>).k = "handler"

ExportIt ==
  LET N == AllNames(MaxSeg) IN
  JsonSerialize(IOEnv.OUT,
    [cells |-> [i \in 1..(Len(N) * 4 * 2) |->
                  LET a == i - 1  n == N[(a % Len(N)) + 1]  r == a \div Len(N)  m == (r % 4) + 1  b == (r \div 4) = 0
                  IN Cell(m, b, n)],
     names |-> [m \in 1..4 |-> NamesOf(Muxes[m])],
     muxes |-> Muxes,
     ncells |-> Len(N) * 8])
================================================================================
