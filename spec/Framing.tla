--------------------------------- MODULE Framing ---------------------------------
(***************************************************************************)
(* Reference decoders for the stream framings of package channel (C11,     *)
(* C12): what the documented format yields for a finite stream, as a       *)
(* sequence of Recv outcomes.  Streams are sequences of symbols; every     *)
(* symbol stands for a fixed byte string (the harness owns the mapping).   *)
(*                                                                         *)
(*  Split:   symbols "a" "b" "S" (S = the split byte).                     *)
(*  Header:  "CL" Content-Length  "cl" content-length  "Cl" CONTENT-LENGTH *)
(*           "CT" Content-Type    "UK" X-Unknown       ":" colon           *)
(*           "CrL" Content<CR>Length  "CrT" content<CR>type (unknown names)  *)
(*           "0" "1" "2" digits   "-" minus  "+" plus  "j" a junk letter   *)
(*           "big" 20 nines       "mt" the channel's mime type  "ot" other *)
(*           "LONG" 5000 junk letters (longer than a bufio buffer)         *)
(*           "sp" space  "CR" "LF"   "x" "y" payload bytes                 *)
(*                                                                         *)
(* An outcome is [k |-> "rec", data |-> Seq(symbol), cterr |-> BOOLEAN]    *)
(*            or [k |-> "err"]  (Recv fails; afterwards every Recv fails)  *)
(*            or [k |-> "recerr", data ...] (data together with an error:  *)
(*               the unterminated final record of the split framing)       *)
(*            or [k |-> "either"] (documented behaviour leaves it open)    *)
(***************************************************************************)
EXTENDS Integers, Sequences, FiniteSets, TLC, Json, IOUtils

Rec(d)    == [k |-> "rec", data |-> d, cterr |-> FALSE]
RecCT(d)  == [k |-> "rec", data |-> d, cterr |-> TRUE]
RecErr(d) == [k |-> "recerr", data |-> d, cterr |-> FALSE]
Err       == [k |-> "err", data |-> <<>>, cterr |-> FALSE]      \* the stream is exhausted: this and every later Recv fail
ErrFmt    == [k |-> "errfmt", data |-> <<>>, cterr |-> FALSE]   \* format error inside the stream: Recv fails (no claim about later ones)
Either    == [k |-> "either", data |-> <<>>, cterr |-> FALSE]

(***************************************************************************)
(* Split framing.                                                          *)
(***************************************************************************)
RECURSIVE SplitDecode(_, _)
SplitDecode(s, cur) ==
  IF s = <<>> THEN (IF cur = <<>> THEN <<Err>> ELSE <<RecErr(cur), Err>>)   \* unterminated final record: data AND an error
  ELSE IF Head(s) = "S" THEN <<Rec(cur)>> \o SplitDecode(Tail(s), <<>>)
  ELSE SplitDecode(Tail(s), Append(cur, Head(s)))

(***************************************************************************)
(* Header framings.  Mode: "strict" (Content-Type must match), "opt"       *)
(* (may be absent, must match when present), both against mime type "mt";  *)
(* "none" = the channel was made with an empty mime type.                  *)
(***************************************************************************)
SingleByte == {":", "0", "1", "2", "-", "+", "j", "sp", "CR", "LF", "x", "y"}

\* first index of symbol c in s, or 0
RECURSIVE IndexOf(_, _, _)
IndexOf(s, c, i) == IF i > Len(s) THEN 0 ELSE IF s[i] = c THEN i ELSE IndexOf(s, c, i + 1)

RECURSIVE TrimRightSet(_, _)
TrimRightSet(s, S) == IF s # <<>> /\ s[Len(s)] \in S THEN TrimRightSet(SubSeq(s, 1, Len(s) - 1), S) ELSE s
RECURSIVE TrimLeftSet(_, _)
TrimLeftSet(s, S) == IF s # <<>> /\ s[1] \in S THEN TrimLeftSet(Tail(s), S) ELSE s
TrimSpace(s) == TrimLeftSet(TrimRightSet(s, {"sp", "CR"}), {"sp", "CR"})

\* decimal value of a digit sequence; -1 invalid, -2 "may or may not be accepted"
RECURSIVE DigitsVal(_, _)
DigitsVal(s, acc) == IF s = <<>> THEN acc
                     ELSE IF Head(s) \in {"0", "1", "2"} THEN DigitsVal(Tail(s), acc * 10 + (CASE Head(s) = "0" -> 0 [] Head(s) = "1" -> 1 [] OTHER -> 2))
                     ELSE -1
LenVal(v) == IF v = <<>> THEN -1
             ELSE IF v = <<"big">> THEN -1                         \* overflows: an error, not a crash
             ELSE IF Head(v) = "-" THEN -1                         \* negative
             ELSE IF Head(v) = "+" THEN (IF DigitsVal(Tail(v), 0) >= 0 /\ Tail(v) # <<>> THEN -2 ELSE -1)   \* "+1": decimal? open
             ELSE DigitsVal(v, 0)

\* parse header lines from s; returns [st: "ok"|"err"|"either", cl, ct ("" | "mt" | "ot" | "junk"), rest]
RECURSIVE Headers(_, _, _)
Headers(s, cl, ct) ==
  IF s = <<>> THEN [st |-> "err", cl |-> cl, ct |-> ct, rest |-> <<>>]          \* stream ended inside the header section
  ELSE LET nl    == IndexOf(s, "LF", 1)
           raw   == IF nl = 0 THEN s ELSE SubSeq(s, 1, nl - 1)
           rest  == IF nl = 0 THEN <<>> ELSE SubSeq(s, nl + 1, Len(s))
           line  == TrimRightSet(raw, {"CR", "LF"})
           colon == IndexOf(line, ":", 1)
       IN  IF line = <<>> THEN (IF nl = 0 THEN [st |-> "err", cl |-> cl, ct |-> ct, rest |-> <<>>]   \* only CRs, then end of stream
                                ELSE [st |-> "ok", cl |-> cl, ct |-> ct, rest |-> rest])
           ELSE IF colon = 0 THEN [st |-> "fmt", cl |-> cl, ct |-> ct, rest |-> rest]   \* not a header line
           ELSE LET key == SubSeq(line, 1, colon - 1)
                    val == TrimSpace(SubSeq(line, colon + 1, Len(line)))
                IN  IF key \in {<<"CL">>, <<"cl">>, <<"Cl">>} THEN Headers(rest, val, ct)    \* field names are case-insensitive
                    ELSE IF key = <<"CT">> THEN Headers(rest, cl, IF val = <<"mt">> THEN "mt" ELSE IF val = <<>> THEN "" ELSE "ot")
                    ELSE Headers(rest, cl, ct)                                               \* unknown fields are ignored

CTErr(mode, ct) == CASE mode = "strict" -> ct # "mt"
                     [] mode = "opt"    -> ct \notin {"", "mt"}
                     [] mode = "none"   -> ct # ""
                     [] OTHER -> FALSE

RECURSIVE HdrDecode(_, _)
HdrDecode(s, mode) ==
  IF s = <<>> THEN <<Err>>
  ELSE LET h == Headers(s, <<"unset">>, "") IN
       IF h.st = "err" THEN <<Err>>
       ELSE IF h.st = "fmt" THEN <<ErrFmt>>
       ELSE IF h.cl = <<"unset">> THEN <<ErrFmt>>                \* missing Content-Length
       ELSE LET n == LenVal(h.cl) IN
            IF n = -1 THEN <<ErrFmt>>
            ELSE IF n = -2 THEN <<Either>>
            ELSE IF Len(h.rest) < n THEN <<Err>>                  \* payload cut off by the end of the stream: never shortened
            ELSE LET data == SubSeq(h.rest, 1, n)
                     more == SubSeq(h.rest, n + 1, Len(h.rest))
                 IN <<IF CTErr(mode, h.ct) THEN RecCT(data) ELSE Rec(data)>> \o HdrDecode(more, mode)

\* streams whose payload regions consist of single-byte symbols only (so that a payload never cuts a
\* multi-byte symbol): the decoder model is exact on them.  Other streams are left to the byte-level
\* mutation runs with the weaker no-crash / no-fabrication oracle.
RECURSIVE ExactOn(_)
ExactOn(s) ==
  IF s = <<>> THEN TRUE
  ELSE LET h == Headers(s, <<"unset">>, "") IN
       IF h.st \in {"err", "fmt"} \/ h.cl = <<"unset">> THEN TRUE
       ELSE LET n == LenVal(h.cl) IN
            IF n < 0 THEN TRUE
            ELSE IF Len(h.rest) < n THEN \A i \in 1..Len(h.rest) : h.rest[i] \in SingleByte
            ELSE /\ \A i \in 1..n : h.rest[i] \in SingleByte
                 /\ ExactOn(SubSeq(h.rest, n + 1, Len(h.rest)))

(***************************************************************************)
(* Streams: all sequences of at most MaxTok tokens from a token pool       *)
(* (tokens are short symbol sequences: whole header lines, blank lines,    *)
(* payload bytes, fragments).                                              *)
(***************************************************************************)
CONSTANTS MaxTok, SplitLen

HTok == << <<"CL", ":", "sp", "2", "CR", "LF">>,       \* 1 Content-Length: 2
           <<"cl", ":", "1", "LF">>,                    \* 2 content-length:1   (lower case, no space, LF only)
           <<"Cl", ":", "sp", "0", "sp", "CR", "LF">>,  \* 3 CONTENT-LENGTH: 0
           <<"CL", ":", "-", "1", "CR", "LF">>,         \* 4 negative
           <<"CL", ":", "sp", "j", "CR", "LF">>,        \* 5 junk
           <<"CL", ":", "big", "CR", "LF">>,            \* 6 overflow
           <<"CL", ":", "+", "1", "CR", "LF">>,         \* 7 plus sign
           <<"CT", ":", "sp", "mt", "CR", "LF">>,       \* 8 matching type
           <<"CT", ":", "sp", "ot", "CR", "LF">>,       \* 9 other type
           <<"UK", ":", "sp", "j", "CR", "LF">>,        \* 10 unknown field
           <<"j", "j", "CR", "LF">>,                    \* 11 no colon
           <<"CR", "LF">>,                              \* 12 blank
           <<"LF">>,                                    \* 13 blank, LF only
           <<"x">>, <<"y", "x">>,                       \* 14 15 payload bytes
           <<"CL", ":", "sp", "1", "2", "CR", "LF">>,   \* 16 Content-Length: 12
           <<"CL", ":", "sp", "2">>,                    \* 17 header line without terminator
           <<"UK", ":", "sp", "LONG", "CR", "LF", "CL", ":", "sp", "2", "CR", "LF">>,     \* 18 an unknown field longer than any read buffer, then Content-Length: 2
           <<"UK", ":", "sp", "j", ":", "j", ":", "CR", "LF", "CL", ":", "sp", "1", "CR", "LF">>,     \* 19 an unknown field whose value contains colons (Host: a:80), then Content-Length: 1
           <<"sp", "CR", "LF">>,                        \* 20 a line of white space: not blank (it does not end the header section), not a header line
           <<"sp", "CL", ":", "sp", "1", "CR", "LF">>,     \* 21 an indented Content-Length: the name of the field is " Content-Length", an unknown one
           <<"CrL", ":", "sp", "2", "CR", "LF">>,          \* 22 a field named Content<CR>Length (one bit from the real name): an unknown field
           <<"CL", ":", "sp", "1", "CR", "LF", "CrL", ":", "sp", "2", "CR", "LF", "CrT", ":", "sp", "ot", "CR", "LF">> >>   \* 23 the real length, then look-alikes of both known fields

RECURSIVE Flatten(_)
Flatten(ts) == IF ts = <<>> THEN <<>> ELSE HTok[Head(ts)] \o Flatten(Tail(ts))

\* the i-th (0-based) sequence of exactly k elements over 1..base, by positional arithmetic
RECURSIVE Digits(_, _, _)
Digits(i, k, base) == IF k = 0 THEN <<>> ELSE <<(i % base) + 1>> \o Digits(i \div base, k - 1, base)
RECURSIVE Pow(_, _)
Pow(b, k) == IF k = 0 THEN 1 ELSE b * Pow(b, k - 1)
RECURSIVE AllSeqs(_, _)
AllSeqs(k, base) == IF k < 0 THEN <<>> ELSE AllSeqs(k - 1, base) \o [i \in 1..Pow(base, k) |-> Digits(i - 1, k, base)]

\* header table: for each token sequence (exact ones only) the outcomes under the three modes
HCell(ts) == LET s == Flatten(ts) IN
             [toks |-> ts, strict |-> HdrDecode(s, "strict"), opt |-> HdrDecode(s, "opt"), none |-> HdrDecode(s, "none")]

SplitSyms == <<"a", "b", "S">>
SCell(f) == LET s == [i \in DOMAIN f |-> SplitSyms[f[i]]] IN [stream |-> s, out |-> SplitDecode(s, <<>>)]

\* sanity properties of the reference decoders (evaluated by TLC)
ASSUME SplitDecode(<<"a", "S", "b">>, <<>>) = <<Rec(<<"a">>), RecErr(<<"b">>), Err>>
ASSUME HdrDecode(Flatten(<<1, 12, 15>>), "opt") = <<Rec(<<"y", "x">>), Err>>
ASSUME HdrDecode(Flatten(<<1, 12, 14>>), "opt") = <<Err>>
ASSUME HdrDecode(Flatten(<<6, 12, 14>>), "opt") = <<ErrFmt>>
ASSUME HdrDecode(Flatten(<<9, 2, 13, 14>>), "opt") = <<RecCT(<<"x">>), Err>>
ASSUME HdrDecode(Flatten(<<3, 13, 2, 12, 14>>), "strict") = <<RecCT(<<>>), RecCT(<<"x">>), Err>>

ExportIt ==
  LET A  == AllSeqs(MaxTok, Len(HTok))
      H  == SelectSeq(A, LAMBDA ts : ExactOn(Flatten(ts)))
      S  == AllSeqs(SplitLen, 3)
  IN  JsonSerialize(IOEnv.OUT, [header |-> [i \in 1..Len(H) |-> HCell(H[i])],
                                split  |-> [i \in 1..Len(S) |-> SCell(S[i])],
                                tokens |-> HTok, nheader |-> Len(H), nsplit |-> Len(S),
                                skipped |-> Len(A) - Len(H)])
================================================================================
