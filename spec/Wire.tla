---------------------------------- MODULE Wire ----------------------------------
(***************************************************************************)
(* Reference function for C02 (and the ParseRequests half of C13): what    *)
(* JSON-RPC 2.0 and the README prescribe for every inbound record, as a    *)
(* function of the record's abstract shape.  It transcribes the property   *)
(* statement, not the Go code.  TLC evaluates it over the complete product *)
(* of per-field variants and exports the table; the harness concretises    *)
(* every cell into byte strings, sends them to a real Server, calls        *)
(* ParseRequests on them, and compares.                                    *)
(***************************************************************************)
EXTENDS Integers, Sequences, FiniteSets, TLC, Json, IOUtils

Ver    == {"absent", "ok", "wrongStr", "nonStr", "null"}
Id     == {"absent", "null", "int", "neg", "frac", "exp", "str", "emptyStr", "bool", "arr", "obj"}
Method == {"absent", "known", "unknown", "reserved", "info", "empty", "nonStr", "null"}
Params == {"absent", "null", "arr", "obj", "num", "str", "bool"}
Extra  == {"none", "unknownKey", "result", "errObj", "errBad"}
NonObj == {"num", "str", "null", "true", "arr"}

Members == [ver : Ver, id : Id, method : Method, params : Params, extra : Extra]

(***************************************************************************)
(* Field-level validity, straight from the specification.                  *)
(***************************************************************************)
VerOK(m)    == m.ver = "ok"
IdValid(m)  == m.id \in {"absent", "null", "int", "neg", "frac", "exp", "str", "emptyStr"}   \* string, number, null or absent
HasId(m)    == m.id \in {"int", "neg", "frac", "exp", "str", "emptyStr"}                     \* null counts as absent
ParamsOK(m) == m.params \in {"absent", "null", "arr", "obj"}                                  \* structured or omitted
MethodStr(m) == m.method \in {"known", "unknown", "reserved", "info"}                         \* a non-empty string
ReplyFields(m) == m.extra \in {"result", "errObj", "errBad"}
\* a reply-shaped member: no usable method name and a result or error member.  It is a *clean*
\* reply when nothing else is wrong with it; a reply-shaped member that is malformed in some other
\* way (non-string method, malformed error value, bad version ...) may be dropped or answered.
ReplyShaped(m) == m.method \in {"absent", "null", "empty", "nonStr"} /\ m.extra \in {"result", "errObj", "errBad"}
CleanReply(m)  == m.method \in {"absent", "null", "empty"} /\ m.extra \in {"result", "errObj"}
                  /\ VerOK(m) /\ IdValid(m) /\ ParamsOK(m)

Valid(m) == /\ VerOK(m) /\ IdValid(m) /\ MethodStr(m) /\ ParamsOK(m) /\ m.extra = "none"

\* the id an error reply must echo: the member's id when it is a string or a number, null otherwise
Echo(m) == IF HasId(m) THEN m.id ELSE "null"

(***************************************************************************)
(* Verdict for one member.  kinds:                                         *)
(*   "run"     handler invoked; a call is answered with its result         *)
(*   "info"    built-in rpc.serverInfo                                     *)
(*   "mnf"     -32601 for a call, silence for a notification               *)
(*   "invalid" error with a code in {-32700, -32600}, id = Echo(m)         *)
(*   "dropped" (push server only) unmatched reply-shaped member            *)
(* fields: kind, call (is an answer owed), echo, mayDrop (either dropped   *)
(* or answered as invalid is acceptable)                                   *)
(***************************************************************************)
Verdict(m, push) ==
  IF Valid(m)
  THEN CASE m.method = "known"    -> [kind |-> "run",  answer |-> HasId(m), echo |-> Echo(m), mayDrop |-> FALSE]
         [] m.method = "info"     -> [kind |-> "info", answer |-> HasId(m), echo |-> Echo(m), mayDrop |-> FALSE]
         [] OTHER                 -> [kind |-> "mnf",  answer |-> HasId(m), echo |-> Echo(m), mayDrop |-> FALSE]
  ELSE IF push /\ CleanReply(m)
  THEN [kind |-> "dropped", answer |-> FALSE, echo |-> Echo(m), mayDrop |-> TRUE]
  ELSE IF push /\ ReplyShaped(m)
  THEN \* reply-shaped and otherwise malformed: dropping it or answering it as invalid are both acceptable
       [kind |-> "invalid", answer |-> TRUE, echo |-> Echo(m), mayDrop |-> TRUE]
  ELSE [kind |-> "invalid", answer |-> TRUE, echo |-> Echo(m), mayDrop |-> FALSE]

NonObjVerdict == [kind |-> "invalid", answer |-> TRUE, echo |-> "null", mayDrop |-> FALSE]

\* ParseRequests: "yes" = must be flagged (structurally invalid), "no" = must not be flagged,
\* "either" = a member without a usable method name and no other defect (the parser is shared
\* with reply parsing and leaves the empty-method verdict to the server)
Structural(m) == \/ ~VerOK(m) \/ ~IdValid(m) \/ ~ParamsOK(m) \/ m.extra \in {"unknownKey", "errBad"}
                 \/ m.method = "nonStr" \/ (MethodStr(m) /\ ReplyFields(m))
Flagged(m) == IF Structural(m) THEN "yes" ELSE IF MethodStr(m) THEN "no" ELSE "either"

(***************************************************************************)
(* The table.                                                              *)
(***************************************************************************)
Cell(m) == [ver |-> m.ver, id |-> m.id, method |-> m.method, params |-> m.params, extra |-> m.extra,
            plain |-> Verdict(m, FALSE), push |-> Verdict(m, TRUE), flagged |-> Flagged(m)]

\* sanity properties of the reference function itself (evaluated by TLC)
ASSUME \A m \in Members : Valid(m) => Flagged(m) = "no"
ASSUME \A m \in Members : Verdict(m, FALSE).kind = "invalid" => Verdict(m, FALSE).answer
ASSUME \A m \in Members : (Verdict(m, TRUE).kind = "dropped") => ~Valid(m)
ASSUME \A m \in Members : Verdict(m, FALSE).kind \in {"run", "info"} <=> (Valid(m) /\ m.method \in {"known", "info"})
ASSUME \A m \in Members : Flagged(m) = "yes" => Verdict(m, FALSE).kind = "invalid"

VerS    == <<"absent", "ok", "wrongStr", "nonStr", "null">>
IdS     == <<"absent", "null", "int", "neg", "frac", "exp", "str", "emptyStr", "bool", "arr", "obj">>
MethodS == <<"absent", "known", "unknown", "reserved", "info", "empty", "nonStr", "null">>
ParamsS == <<"absent", "null", "arr", "obj", "num", "str", "bool">>
ExtraS  == <<"none", "unknownKey", "result", "errObj", "errBad">>
N == Len(VerS) * Len(IdS) * Len(MethodS) * Len(ParamsS) * Len(ExtraS)
At(i) == LET a == i - 1
             e == a % Len(ExtraS)    a1 == a \div Len(ExtraS)
             p == a1 % Len(ParamsS)  a2 == a1 \div Len(ParamsS)
             me == a2 % Len(MethodS) a3 == a2 \div Len(MethodS)
             d == a3 % Len(IdS)      v == a3 \div Len(IdS)
         IN [ver |-> VerS[v + 1], id |-> IdS[d + 1], method |-> MethodS[me + 1], params |-> ParamsS[p + 1], extra |-> ExtraS[e + 1]]
ASSUME N = Cardinality(Members)
Flat == [i \in 1..N |-> Cell(At(i))]
ASSUME JsonSerialize(IOEnv.OUT, [cells |-> Flat, nonobj |-> NonObjVerdict, garbage |-> -32700, emptyArray |-> -32600, ncells |-> N])
VARIABLE x
Spec == x = 0 /\ [][x' = x]_x
================================================================================
