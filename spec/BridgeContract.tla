----------------------------- MODULE BridgeContract -----------------------------
(***************************************************************************)
(* C18 over observable events: HTTP request begin (method, content type,   *)
(* abstract body), handler start / exit (tagged with the HTTP request and  *)
(* the member they belong to), HTTP response (status, shape, items).       *)
(***************************************************************************)
EXTENDS Integers, Sequences, FiniteSets, TLC, Json, IOUtils
CONSTANTS Enforce
Trace == ndJsonDeserialize(IOEnv.TRACE)
VARIABLES l, reqs,   \* h -> [kind, mem, st: "open"|"done"]
          hs         \* tag -> [st: "run"|"done", out, n]
vars == <<l, reqs, hs>>
Imp(p, c) == (p \in Enforce) => c
EmptyFn == [x \in {} |-> 0]
Ev == Trace[l]
IsEvent(e) == l <= Len(Trace) /\ Ev.ev = e /\ l' = l + 1
Init == l = 1 /\ reqs = EmptyFn /\ hs = EmptyFn
Reset == IsEvent("Reset") /\ reqs' = EmptyFn /\ hs' = EmptyFn

ReqB == /\ IsEvent("HTTPReqB") /\ Ev.h \notin DOMAIN reqs
        /\ reqs' = [h \in DOMAIN reqs \cup {Ev.h} |-> IF h = Ev.h THEN [kind |-> Ev.kind, mem |-> Ev.mem, st |-> "open"] ELSE reqs[h]]
        /\ UNCHANGED hs

OwnerOf(tag) == CHOOSE h \in DOMAIN reqs : \E i \in 1..Len(reqs[h].mem) : reqs[h].mem[i].tag = tag
Known(tag) == \E h \in DOMAIN reqs : \E i \in 1..Len(reqs[h].mem) : reqs[h].mem[i].tag = tag
MemberOf(tag) == LET h == OwnerOf(tag) IN reqs[h].mem[CHOOSE i \in 1..Len(reqs[h].mem) : reqs[h].mem[i].tag = tag]

HStart == /\ IsEvent("HStart")
          /\ Imp("C18", Known(Ev.tag))
          /\ Known(Ev.tag) =>
               /\ Imp("C18", reqs[OwnerOf(Ev.tag)].kind = "ok")                                        \* refused requests run nothing
               /\ Imp("C18", MemberOf(Ev.tag).k = "call" => reqs[OwnerOf(Ev.tag)].st = "open")           \* a call runs before its caller is answered
               /\ Imp("C18", MemberOf(Ev.tag).k \in {"call", "note"})                                    \* invalid members reach no handler
               /\ Imp("C18", Ev.tag \notin DOMAIN hs)                                                    \* exactly once
          /\ hs' = [t \in DOMAIN hs \cup {Ev.tag} |-> IF t = Ev.tag THEN [st |-> "run", out |-> "-"] ELSE hs[t]]
          /\ UNCHANGED reqs
HExit == /\ IsEvent("HExit") /\ Ev.tag \in DOMAIN hs
         /\ hs' = [hs EXCEPT ![Ev.tag].st = "done", ![Ev.tag].out = Ev.out]
         /\ UNCHANGED reqs

CodeOf(out) == CASE out = "err:7" -> 7 [] out = "err:-32602" -> -32602 [] out = "err:plain" -> -32098 [] OTHER -> 0

\* item it answers member m of this request
Answers(it, m) ==
  IF m.k = "call"
  THEN /\ it.id = m.id                                                   \* the caller's own id text
       /\ m.tag \in DOMAIN hs /\ hs[m.tag].st = "done"
       /\ IF hs[m.tag].out = "ok" THEN it.kind = "result" /\ it.tag = m.tag
          ELSE IF hs[m.tag].out = "err:baddata" THEN it.kind = "error"     \* an error that cannot be encoded: still an error object, whatever its code
          ELSE it.kind = "error" /\ it.code = CodeOf(hs[m.tag].out)
  ELSE /\ m.k = "inv" /\ it.kind = "error" /\ it.code \in {-32700, -32600}
       /\ it.id = (IF m.echo = "" THEN "null" ELSE m.echo)

\* a bijection between the items and the answerable members exists (order is not constrained)
RECURSIVE Matches(_, _)
Matches(items, ms) ==
  IF items = <<>> THEN ms = <<>>
  ELSE \E j \in 1..Len(ms) : Answers(items[1], ms[j]) /\ Matches(Tail(items), [k \in 1..(Len(ms) - 1) |-> IF k < j THEN ms[k] ELSE ms[k + 1]])

ReqE ==
  /\ IsEvent("HTTPReqE") /\ Ev.h \in DOMAIN reqs /\ reqs[Ev.h].st = "open"
  /\ LET r == reqs[Ev.h]
         answerable == SelectSeq(r.mem, LAMBDA m : m.k \in {"call", "inv"})
         runnable   == SelectSeq(r.mem, LAMBDA m : m.k \in {"call", "note"})
     IN CASE r.kind = "notpost"    -> Imp("C18", Ev.status = 405)
          [] r.kind \in {"badtype", "badcharset"} -> Imp("C18", Ev.status = 415)
          [] r.kind \in {"garbage", "trailing"} -> Imp("C18", Ev.status >= 400)     \* not valid JSON (also: a valid value followed by more bytes)
          [] r.kind = "emptyarr"   -> TRUE                               \* valid JSON with nothing to answer: status left open
          [] OTHER ->
               \* every call ran its handler exactly once, and it has returned (notifications are not waited for: see Final)
               /\ Imp("C18", \A i \in 1..Len(runnable) : runnable[i].k = "call" => (runnable[i].tag \in DOMAIN hs /\ hs[runnable[i].tag].st = "done"))
               /\ Imp("C18", Len(Ev.items) = Len(answerable))
               /\ Imp("C18", Len(Ev.items) = Len(answerable) => Matches(Ev.items, answerable))
               /\ Imp("C18", IF Len(answerable) = 0 THEN Ev.status = 204 /\ Ev.shape = "empty"
                             ELSE Ev.status = 200 /\ (Ev.shape = "object" <=> Len(answerable) = 1) /\ (Ev.shape = "array" <=> Len(answerable) # 1))
  /\ reqs' = [reqs EXCEPT ![Ev.h].st = "done"]
  /\ UNCHANGED hs

Final == /\ IsEvent("Final")
         /\ Imp("C18", \A h \in DOMAIN reqs : reqs[h].st = "done")       \* every HTTP request was answered
         \* every valid request (notifications included) of an accepted HTTP request ran its handler exactly once
         /\ Imp("C18", \A h \in DOMAIN reqs : reqs[h].kind = "ok" =>
                          \A i \in 1..Len(reqs[h].mem) : reqs[h].mem[i].k \in {"call", "note"} =>
                             (reqs[h].mem[i].tag \in DOMAIN hs /\ hs[reqs[h].mem[i].tag].st = "done"))
         /\ UNCHANGED <<reqs, hs>>
Other == /\ l <= Len(Trace) /\ Ev.ev \notin {"Reset", "HTTPReqB", "HTTPReqE", "HStart", "HExit", "Final", "Crash", "Deadlock", "Leak"}
         /\ l' = l + 1 /\ UNCHANGED <<reqs, hs>>
Terminal == /\ l <= Len(Trace) /\ Ev.ev \in {"Crash", "Deadlock", "Leak"} /\ "C18" \notin Enforce
            /\ l' = l + 1 /\ UNCHANGED <<reqs, hs>>
Next == Reset \/ ReqB \/ HStart \/ HExit \/ ReqE \/ Final \/ Other \/ Terminal
Spec == Init /\ [][Next]_vars
ASSUME TLCSet(1, 0)
Track == TLCSet(1, IF TLCGet(1) < l THEN l ELSE TLCGet(1))
Accepted == IF TLCGet(1) = Len(Trace) + 1 THEN TRUE
            ELSE /\ PrintT(<<"REJECTED_AT", TLCGet(1)>>)
                 /\ PrintT(<<"REJECTED_EVENT", ToJson(Trace[TLCGet(1)])>>)
                 /\ FALSE
================================================================================
