------------------------------ MODULE HandlerAdapt ------------------------------
(***************************************************************************)
(* Reference decision tables for C15 (handler.Check / New / Wrap) and C16  *)
(* (Positional / NewPos, Args, Obj), transcribed from the documented       *)
(* behaviour.  TLC evaluates them over the complete product of abstract    *)
(* signature shapes, argument kinds, option settings and params shapes and *)
(* exports the tables; the harness synthesises a Go function type for each *)
(* signature cell with reflect.FuncOf / MakeFunc and replays every cell.   *)
(* The VALUE the function must receive is "what encoding/json decodes from *)
(* the (array-translated) params" and is computed in Go; the tables decide *)
(* called / not called / InvalidParams, acceptance and arity.              *)
(***************************************************************************)
EXTENDS Integers, Sequences, FiniteSets, TLC, Json, IOUtils

(***************************************************************************)
(* 1. Check: which signatures are accepted.                                *)
(*    [nin, in0, variadic, nout, o1, o2]                                   *)
(***************************************************************************)
In0   == {"ctx", "other"}
OutK  == {"val", "err"}
Sigs  == [nin : 0..3, in0 : In0, variadic : BOOLEAN, nout : 0..3, o1 : OutK, o2 : OutK]
Accepts(s) == /\ s.nin \in {1, 2} /\ s.in0 = "ctx" /\ ~s.variadic
              /\ s.nout \in {1, 2}
              /\ (s.nout = 2 => s.o2 = "err")
\* documented FuncInfo fields for accepted signatures
HasArg(s)       == s.nin = 2
ReportsError(s) == IF s.nout = 2 THEN TRUE ELSE s.o1 = "err"
HasResult(s)    == s.nout = 2 \/ s.o1 = "val"
SigCell(s) == [nin |-> s.nin, in0 |-> s.in0, variadic |-> s.variadic, nout |-> s.nout, o1 |-> s.o1, o2 |-> s.o2,
               accept |-> Accepts(s), hasArg |-> HasArg(s), reportsError |-> ReportsError(s), hasResult |-> HasResult(s)]

(***************************************************************************)
(* 2. Wrap: struct-like parameter types.  For each variant: is it a        *)
(*    (pointer to) struct, its positional name count n (exported fields in *)
(*    declaration order; unexported, json:"-" and untagged embedded fields *)
(*    are skipped), whether the type itself demands strict decoding.       *)
(***************************************************************************)
Variants == << [v |-> "S2",      n |-> 2, selfStrict |-> FALSE],     \* A int `json:"a"`; B string `json:"b"`
               [v |-> "PS2",     n |-> 2, selfStrict |-> FALSE],     \* *S2
               [v |-> "SMix",    n |-> 2, selfStrict |-> FALSE],     \* X int; y int; Z string `json:"-"`; W bool `json:"w,omitempty"`
               [v |-> "SEmb",    n |-> 0, selfStrict |-> FALSE],     \* struct{ Inner }  (untagged embedded: no positional names)
               [v |-> "SEmbTag", n |-> 1, selfStrict |-> FALSE],     \* struct{ Inner `json:"in"` }
               [v |-> "SNone",   n |-> 0, selfStrict |-> FALSE],     \* only unexported / json:"-" fields
               [v |-> "SDUF",    n |-> 2, selfStrict |-> TRUE],      \* S2 with a DisallowUnknownFields method
               [v |-> "SUnexpTag", n |-> 2, selfStrict |-> FALSE] >> \* A int; b int `json:"b"` (unexported: skipped although tagged); C int `json:"c"`
PClasses == <<"absent", "null", "objExact", "objSubset", "objUnknown", "objNestedUnknown", "objWrongType",
              "arrNminus1", "arrN", "arrNplus1", "arrWrongType", "arrWithNull", "arrEmpty">>

\* "called" | "invalid" | "na" (class does not exist for the variant)
WrapOutcome(var, strict, allowArray, p) ==
  LET n == var.n  st == strict \/ var.selfStrict IN
  CASE p \in {"absent", "null"} -> "called"                                  \* no parameters: the zero value
    [] p \in {"objExact", "objSubset"} -> "called"
    [] p = "objUnknown" -> IF st THEN "invalid" ELSE "called"                \* unknown fields rejected iff strict
    [] p = "objNestedUnknown" -> IF var.v \in {"SEmbTag"} THEN (IF st THEN "invalid" ELSE "called") ELSE "na"
    [] p = "objWrongType" -> IF var.v = "SNone" THEN "na" ELSE "invalid"
    [] p = "arrN" -> IF n > 0 /\ allowArray THEN "called" ELSE "invalid"     \* array -> fields in declaration order
    [] p = "arrWithNull" -> IF n = 0 THEN "na" ELSE IF allowArray THEN "called" ELSE "invalid"
    [] p = "arrWrongType" -> IF n = 0 THEN "na" ELSE "invalid"
    [] p = "arrNminus1" -> IF n = 0 THEN "na" ELSE "invalid"                 \* exact length required
    [] p = "arrNplus1" -> "invalid"
    [] p = "arrEmpty" -> "invalid"                                           \* n = 0: an array is not a struct; n > 0: wrong length
    [] OTHER -> "na"

WrapCell(i, strict, allowArray, j) ==
  [v |-> Variants[i].v, n |-> Variants[i].n, strict |-> strict, allowArray |-> allowArray, p |-> PClasses[j],
   out |-> WrapOutcome(Variants[i], strict, allowArray, PClasses[j])]

\* non-struct parameter kinds: the wrapper decodes exactly as encoding/json does (strictness and array
\* mapping have no effect); the "none" and "req" kinds are decided here
\* ("ptrptr": a pointer to a pointer to a struct - the array-to-field mapping is documented for a struct and a pointer
\* to one, nothing deeper; "ptrint", "ptrslice": pointers to non-struct values)
Kinds == <<"none", "req", "int", "string", "slice", "array1", "map", "raw", "iface", "ptrptr", "ptrint", "ptrslice">>
KindOutcome(k, p) ==
  CASE k = "none" -> IF p \in {"absent", "null"} THEN "called" ELSE "invalid"   \* no parameters accepted
    [] k = "req"  -> "called"                                                   \* the request itself, whatever it holds
    [] k = "raw"  -> "called"                                                   \* raw JSON never fails
    [] OTHER -> IF p \in {"absent", "null"} THEN "called" ELSE "asjson"         \* whatever encoding/json says
KindCell(i, j) == [kind |-> Kinds[i], p |-> PClasses[j], out |-> KindOutcome(Kinds[i], PClasses[j])]

(***************************************************************************)
(* 3. Positional: func(ctx, X1..Xn) with a name list.                      *)
(***************************************************************************)
PosP == <<"absent", "arrNminus1", "arrN", "arrNplus1", "arrEmpty", "arrNullAt", "arrWrongAt",
          "objAll", "objSubset", "objSuperset", "objWrongType", "objEmpty">>
PosOutcome(n, p) ==
  CASE p = "absent" -> "called"                       \* no parameters: all zero values
    [] p = "arrN" -> "called"
    [] p = "arrNullAt" -> "called"                    \* null allowed in place of any argument
    [] p \in {"arrNminus1", "arrNplus1", "arrEmpty", "arrWrongAt"} -> "invalid"
    [] p \in {"objAll", "objSubset", "objEmpty"} -> "called"   \* missing names leave zero values
    [] p = "objSuperset" -> "invalid"                 \* unknown names are errors (always strict)
    [] p = "objWrongType" -> "invalid"
    [] OTHER -> "na"
\* constructor: names must match the number of non-context arguments exactly
NamesVerdict(n, nnames) == IF n = 0 THEN "check" ELSE IF nnames = n THEN "ok" ELSE "error"

(***************************************************************************)
(* 4. Args and Obj.                                                        *)
(***************************************************************************)
ArgsP == <<"arrLen", "arrShort", "arrLong", "arrWrongType", "object", "scalar", "arrNullElem">>
ArgsOutcome(len, p) == CASE p = "arrLen" -> "ok" [] p = "arrNullElem" -> "ok" [] OTHER -> "error"
ObjP == <<"allKeys", "someKeys", "extraKeys", "wrongType", "array", "scalar", "empty">>
ObjOutcome(p) == CASE p \in {"allKeys", "someKeys", "extraKeys", "empty"} -> "ok" [] OTHER -> "error"

SigAt(i) == LET a == i - 1
                o2 == a % 2        a1 == a \div 2
                o1 == a1 % 2       a2 == a1 \div 2
                no == a2 % 4       a3 == a2 \div 4
                va == a3 % 2       a4 == a3 \div 2
                i0 == a4 % 2       ni == a4 \div 2
            IN [nin |-> ni, in0 |-> IF i0 = 0 THEN "ctx" ELSE "other", variadic |-> va = 1, nout |-> no,
                o1 |-> IF o1 = 0 THEN "val" ELSE "err", o2 |-> IF o2 = 0 THEN "val" ELSE "err"]
NSigs == 4 * 2 * 2 * 4 * 2 * 2
ASSUME NSigs = Cardinality(Sigs) /\ \A i \in 1..NSigs : SigAt(i) \in Sigs

\* sanity of the tables
ASSUME WrapOutcome(Variants[1], FALSE, TRUE, "arrEmpty") = "invalid"
ASSUME WrapOutcome(Variants[4], TRUE, TRUE, "objUnknown") = "invalid"
ASSUME PosOutcome(3, "arrEmpty") = "invalid"

ExportIt ==
  JsonSerialize(IOEnv.OUT,
    [sigs |-> [i \in 1..NSigs |-> SigCell(SigAt(i))],
     wrap |-> [a \in 1..(Len(Variants) * 2 * 2 * Len(PClasses)) |->
                 LET x == a - 1  j == (x % Len(PClasses)) + 1  r == x \div Len(PClasses)
                     al == (r % 2) = 0  r2 == r \div 2  st == (r2 % 2) = 1  i == (r2 \div 2) + 1
                 IN WrapCell(i, st, al, j)],
     kinds |-> [a \in 1..(Len(Kinds) * Len(PClasses)) |-> KindCell(((a - 1) \div Len(PClasses)) + 1, ((a - 1) % Len(PClasses)) + 1)],
     pos |-> [a \in 1..(7 * Len(PosP)) |-> LET n == (a - 1) \div Len(PosP)  p == PosP[((a - 1) % Len(PosP)) + 1]
                                           IN [n |-> n, p |-> p, out |-> IF n = 0 THEN "check" ELSE PosOutcome(n, p)]],
     names |-> [a \in 1..(7 * 8) |-> LET n == (a - 1) \div 8  k == (a - 1) % 8 IN [n |-> n, nnames |-> k, out |-> NamesVerdict(n, k)]],
     args |-> [a \in 1..(5 * Len(ArgsP)) |-> LET len == (a - 1) \div Len(ArgsP)  p == ArgsP[((a - 1) % Len(ArgsP)) + 1]
                                              IN [len |-> len, p |-> p, out |-> ArgsOutcome(len, p)]],
     obj |-> [a \in 1..Len(ObjP) |-> [p |-> ObjP[a], out |-> ObjOutcome(ObjP[a])]],
     ncells |-> NSigs + Len(Variants) * 4 * Len(PClasses) + Len(Kinds) * Len(PClasses) + 7 * Len(PosP) + 56 + 5 * Len(ArgsP) + Len(ObjP)])
ASSUME ExportIt
VARIABLE x
Spec == x = 0 /\ [][x' = x]_x
================================================================================
