------------------------------- MODULE QueryTyping -------------------------------
(***************************************************************************)
(* Reference function for C19(a): how jhttp.ParseQuery must type a query   *)
(* value, from its documentation, and the Getter's status mapping.         *)
(* A value is a sequence of tokens; every token stands for a fixed string  *)
(* (the harness owns the mapping).  Classes:                               *)
(*   "str"(exact literal) "jsonstr" "num" "true" "false" "null" "bytes"    *)
(*   "err"; a set of classes means any of them is acceptable.              *)
(***************************************************************************)
EXTENDS Integers, Sequences, FiniteSets, TLC, Json, IOUtils
CONSTANT MaxLen

Toks == <<"dq", "sq", "+", "-", "7", "0", ".", "e", "x", "_", "k", "b64", "=", "sp", "bs",
          "inf", "Inf", "infinity", "NaN", "nan", "true", "True", "false", "null", "NULL">>
Digit(t) == t \in {"7", "0"}
Word(t)  == t \in {"inf", "Inf", "infinity", "NaN", "nan", "true", "True", "false", "null", "NULL"}

RECURSIVE AllDigits(_)
AllDigits(s) == s # <<>> /\ \A i \in 1..Len(s) : Digit(s[i])

\* [+-]?digits(.digits)?   - the documented number syntax
Unsigned(s) == \/ AllDigits(s)
               \/ \E i \in 2..(Len(s) - 1) : s[i] = "." /\ AllDigits(SubSeq(s, 1, i - 1)) /\ AllDigits(SubSeq(s, i + 1, Len(s)))
DocNumber(s) == s # <<>> /\ (Unsigned(s) \/ (s[1] \in {"+", "-"} /\ Unsigned(Tail(s))))
\* forms that must never be numbers: non-finite words, hex digits, underscores, letters, spaces, quotes
NeverNumber(s) == \E i \in 1..Len(s) : s[i] \in {"x", "_", "k", "sp", "dq", "sq", "bs", "b64", "="} \/ Word(s[i])
\* anything else made of sign/digit/dot/e only: other float syntax (".5", "5.", "1e5") - left open
FloatLike(s) == s # <<>> /\ \A i \in 1..Len(s) : s[i] \in {"+", "-", "7", "0", ".", "e"}

B64Interior(s) == \* interior of a single-quoted value that is valid base64: whole b64 groups, then optional padding
  \E k \in 0..Len(s) : (\A i \in 1..k : s[i] = "b64") /\ (\A i \in (k + 1)..Len(s) : s[i] = "=")

Type(s) ==
  IF s = <<>> THEN {"str"}
  ELSE IF s[1] = "dq" /\ s[Len(s)] = "dq" /\ Len(s) >= 2
       THEN LET inner == SubSeq(s, 2, Len(s) - 1) IN
            IF \E i \in 1..Len(inner) : inner[i] \in {"dq", "bs"} THEN {"jsonstr", "err"}     \* escapes: valid or not, never anything else
            ELSE {"jsonstr"}
  ELSE IF s[1] = "dq" \/ s[Len(s)] = "dq" THEN {"err", "str"}                                 \* unbalanced quote
  ELSE IF DocNumber(s) THEN {"num"}
  ELSE IF s = <<"true">> THEN {"true"} ELSE IF s = <<"false">> THEN {"false"} ELSE IF s = <<"null">> THEN {"null"}
  ELSE IF s[1] = "sq" /\ s[Len(s)] = "sq" /\ Len(s) >= 2
       THEN IF B64Interior(SubSeq(s, 2, Len(s) - 1)) THEN {"bytes"} ELSE {"err", "bytes"}
  ELSE IF s[1] = "sq" \/ s[Len(s)] = "sq" THEN {"err", "str"}
  ELSE IF NeverNumber(s) THEN {"str"}
  ELSE IF FloatLike(s) THEN {"num", "str"}
  ELSE {"str"}

\* the Getter's status for each outcome of the call
Status(outcome) == CASE outcome = "parseerror" -> 400 [] outcome = "notfound" -> 404 [] outcome = "ok" -> 200 [] OTHER -> 500

RECURSIVE Digits(_, _, _)
Digits(i, k, base) == IF k = 0 THEN <<>> ELSE <<Toks[(i % base) + 1]>> \o Digits(i \div base, k - 1, base)
RECURSIVE Pow(_, _)
Pow(b, k) == IF k = 0 THEN 1 ELSE b * Pow(b, k - 1)
RECURSIVE AllVals(_)
AllVals(k) == IF k < 0 THEN <<>> ELSE AllVals(k - 1) \o [i \in 1..Pow(Len(Toks), k) |-> Digits(i - 1, k, Len(Toks))]

ASSUME Type(<<"-", "7", ".", "0">>) = {"num"} /\ Type(<<"NaN">>) = {"str"} /\ Type(<<"0", "x", "7">>) = {"str"}
ASSUME Type(<<"sq", "b64", "=", "sq">>) = {"bytes"} /\ Type(<<"true">>) = {"true"} /\ Type(<<"True">>) = {"str"}
ASSUME Type(<<".", "7">>) = {"num", "str"} /\ Type(<<"7", "_", "0">>) = {"str"} /\ Type(<<"dq", "k", "dq">>) = {"jsonstr"}

ExportIt == LET V == AllVals(MaxLen) IN
  JsonSerialize(IOEnv.OUT, [cells |-> [i \in 1..Len(V) |-> [v |-> V[i], t |-> Type(V[i])]], ncells |-> Len(V),
                            status |-> [o \in {"parseerror", "notfound", "ok", "handlererror", "invalidparams", "internal"} |-> Status(o)]])
ASSUME ExportIt
VARIABLE x
Spec == x = 0 /\ [][x' = x]_x
================================================================================
