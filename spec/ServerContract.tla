----------------------------- MODULE ServerContract -----------------------------
(***************************************************************************)
(* The server properties C01 C02(envelope) C03 C06 C07 C08 C09 stated over *)
(* events a user of the library can observe (instrumented channel, handler *)
(* wrapper, API call brackets, sound quiescence points).  This module is   *)
(* the JUDGE: TLC validates every trace recorded from the real library     *)
(* against it.  Every guard is tagged with the property it belongs to:     *)
(*      Imp("C03", cond)  ==  ("C03" \in Enforce) => cond                  *)
(* With Enforce = {} every well-formed trace is accepted; with             *)
(* Enforce = {"C03"} exactly the traces violating C03 are rejected.        *)
(*                                                                         *)
(* Steps the harness cannot observe (the reader enqueueing a record, the   *)
(* dispatcher dequeuing a batch) are silent actions chosen by TLC; they    *)
(* are bounded by the number of records in the trace.                      *)
(***************************************************************************)
EXTENDS Integers, Sequences, FiniteSets, TLC, Json, IOUtils

CONSTANTS Enforce

Trace == ndJsonDeserialize(IOEnv.TRACE)

VARIABLES
  l,        \* position in Trace
  conc, push, \* options of the current scenario
  mem,      \* tag -> member record [k, id, m, notey, echo, st, cls, out, u]
  units,    \* dispatch units (batches): Seq of [tags, arr, st, live, kind]
  rq,       \* indices of units received but not yet enqueued by the reader (at most one)
  used,     \* id -> tag holding the reservation
  running,  \* set of tags between HStart and HExit
  stopped,  \* channel closed by the server (stop cause took effect)
  pend,     \* stop causes that may explain the close: subset of {"stop","eof","err","closed"}
  causes,   \* causes pending at the moment of the close
  cancelOK, \* tags whose cancellation is justified by a CancelRequest of their own id
  hcanc,    \* tags that have observed ctx.Done
  cbs,      \* callback name -> [id, st, from, ctxend, reply]  st: "open"|"sent"|"ret"
  notes,    \* [open: number of Notify calls in progress, sent: sends seen inside them]
  waitRet,  \* WaitStatus has returned in this generation
  rdDone,   \* the reader has seen an error or discarded a record after the stop
  sendBad,  \* the channel was told to fail sends
  stopOpen  \* a Stop() call is in progress

vars == <<l, conc, push, mem, units, rq, used, running, stopped, pend, causes, cancelOK, hcanc,
          cbs, notes, waitRet, rdDone, sendBad, stopOpen>>

Imp(p, c) == (p \in Enforce) => c
EmptyFn == [x \in {} |-> 0]
Ev == Trace[l]
IsEvent(e) == l <= Len(Trace) /\ Ev.ev = e /\ l' = l + 1

RECURSIVE SeqSet(_)
SeqSet(s) == IF s = <<>> THEN {} ELSE {Head(s)} \cup SeqSet(Tail(s))

InitState ==
  /\ mem = EmptyFn /\ units = <<>> /\ rq = <<>> /\ used = EmptyFn /\ running = {}
  /\ stopped = FALSE /\ pend = {} /\ causes = {} /\ cancelOK = {} /\ hcanc = {}
  /\ cbs = EmptyFn /\ notes = [open |-> 0, sent |-> 0, bp |-> 0, done |-> 0] /\ waitRet = FALSE /\ rdDone = FALSE
  /\ sendBad = FALSE /\ stopOpen = FALSE

Init == l = 1 /\ conc = 1 /\ push = FALSE /\ InitState

(***************************************************************************)
(* Members.                                                                *)
(***************************************************************************)
IsNoteLike(x) == (x.k = "note") \/ (x.k = "inv" /\ x.id = "" /\ x.notey)   \* retained by a stop
Finished(t)   == mem[t].st \in {"done", "static", "gone"}
\* what a member is answered with when it never ran
StaticCls == {"inv", "nf", "dup", "reply"}
Reportable(t) == LET x == mem[t] IN
                 x.st # "gone" /\ (x.id # "" \/ (x.cls = "inv"))

(***************************************************************************)
(* Recv: the server's Recv returned a record.                              *)
(***************************************************************************)
NewMember(a, u) == [k |-> a.k, id |-> a.id, m |-> a.m, notey |-> a.notey, echo |-> a.echo,
                    st |-> "new", cls |-> "tbd", out |-> "-", u |-> u, tag |-> a.tag, rerr |-> FALSE]

Outstanding(id) == {c \in DOMAIN cbs : cbs[c].id = id /\ cbs[c].st = "sent" /\ cbs[c].reply = "-"}

RecvMsg ==
  /\ IsEvent("Recv")
  /\ rq = <<>>                     \* the reader finished the previous record before calling Recv again
  /\ LET u   == Len(units) + 1
         M   == Ev.mem
         tags == [i \in 1..Len(M) |-> M[i].tag]
     IN  /\ units' = Append(units, [tags |-> tags, arr |-> Ev.arr, st |-> "recvd", live |-> TRUE, kind |-> Ev.kind])
         /\ mem' = [t \in DOMAIN mem \cup SeqSet(tags) |->
                      IF t \in DOMAIN mem THEN mem[t]
                      ELSE LET a == M[CHOOSE i \in 1..Len(M) : M[i].tag = t] IN
                           [NewMember(a, u) EXCEPT !.rerr = (a.k = "reply" /\ "err" \in DOMAIN a /\ a.err)]]
         /\ rq' = <<u>>
  /\ UNCHANGED <<conc, push, used, running, stopped, pend, causes, cancelOK, hcanc, cbs, notes, waitRet, rdDone, sendBad, stopOpen>>

(***************************************************************************)
(* Silent: the reader's critical section for the received record.          *)
(*  - server stopped: the record is discarded                              *)
(*  - reply members matching an outstanding callback complete it           *)
(*  - on a push server other reply-shaped members are dropped              *)
(*  - the rest is enqueued (garbage / empty records are answered directly) *)
(***************************************************************************)
Enqueue ==
  /\ l <= Len(Trace) /\ rq # <<>>
  /\ LET u == rq[1]  T == units[u].tags IN
     IF stopped
     THEN /\ units' = [units EXCEPT ![u].st = "void"]
          /\ mem' = [t \in DOMAIN mem |-> IF mem[t].u = u THEN [mem[t] EXCEPT !.st = "gone", !.cls = "discarded"] ELSE mem[t]]
          /\ UNCHANGED cbs
     ELSE LET isR(t)   == mem[t].k = "reply"
              hit(t)   == isR(t) /\ Outstanding(mem[t].id) # {}
              \* the first reply for an id wins
              first(t) == hit(t) /\ ~\E j \in 1..Len(T) : \E i \in 1..Len(T) :
                             T[i] = t /\ j < i /\ mem[T[j]].id = mem[t].id /\ isR(T[j])
              goneR(t) == isR(t) /\ (first(t) \/ push)
              keep     == SelectSeq(T, LAMBDA t : ~goneR(t))
          IN  /\ mem' = [t \in DOMAIN mem |-> IF mem[t].u = u /\ goneR(t)
                                              THEN [mem[t] EXCEPT !.st = "gone", !.cls = IF first(t) THEN "matched" ELSE "droppedreply"]
                                              ELSE mem[t]]
              /\ cbs' = [c \in DOMAIN cbs |->
                           IF \E t \in SeqSet(T) : first(t) /\ c \in Outstanding(mem[t].id)
                           THEN [cbs[c] EXCEPT !.reply = CHOOSE t \in SeqSet(T) : first(t) /\ c \in Outstanding(mem[t].id)]
                           ELSE cbs[c]]
              /\ units' = [units EXCEPT ![u].st = IF units[u].kind # "msg" THEN "direct"
                                                  ELSE IF keep = <<>> THEN "void" ELSE "queued",
                                        ![u].tags = keep]
  /\ rq' = <<>>
  /\ rdDone' = (rdDone \/ stopped)      \* a record found after the stop is discarded and the reader exits
  /\ UNCHANGED <<l, conc, push, used, running, stopped, pend, causes, cancelOK, hcanc, notes, waitRet, sendBad, stopOpen>>

(***************************************************************************)
(* Silent: the dispatcher dequeues the next unit (FIFO) and classifies its *)
(* members.  C03: only when every notification of earlier units is done.   *)
(***************************************************************************)
Queued == {u \in 1..Len(units) : units[u].st = "queued"}
NextUnit == CHOOSE u \in Queued : \A v \in Queued : u <= v
EarlierNotesDone(u) ==
  \A v \in 1..Len(units) : (v < u /\ units[v].st \in {"disp", "sent"}) =>
     \A i \in 1..Len(units[v].tags) :
        LET x == mem[units[v].tags[i]] IN
        \* (a notification whose base context ended before it got a slot has no handler to wait for)
        (x.k = "note" /\ x.cls = "ok") => (x.st = "done" \/ ("__base" \in cancelOK /\ x.st = "ready"))

InUnitDup(T, t) == mem[t].id # "" /\ \E s \in SeqSet(T) : s # t /\ mem[s].id = mem[t].id

Classify(T, t) ==   \* the class the member gets when it is dispatched
  LET x == mem[t] IN
  IF x.id # "" /\ (InUnitDup(T, t) \/ x.id \in DOMAIN used) THEN "dup"
  ELSE IF x.k = "inv" THEN "inv"
  ELSE IF x.k = "reply" THEN "reply"
  ELSE IF x.m \in {"nf", "rpc"} THEN "nf"
  ELSE "ok"

\* Dequeue: nextRequest pops the batch and checkAndAssignLocked classifies it (duplicate ids are judged against
\* the reservations of THIS moment; ids are reserved now).  The dispatcher holds at most one batch.
Held == {u \in 1..Len(units) : units[u].st = "held"}
Dequeue ==
  /\ l <= Len(Trace) /\ Queued # {} /\ Held = {}
  /\ LET u == NextUnit  T == units[u].tags IN
     /\ \E choice \in [SeqSet(T) -> {"asis", "flip"}] :
          \* without C07 the duplicate-id verdict is not judged: either reading is accepted
          /\ ("C07" \in Enforce => \A t \in SeqSet(T) : choice[t] = "asis")
          /\ (\A t \in SeqSet(T) : choice[t] = "flip" => (mem[t].id # "" /\ mem[t].k \in {"call"} /\ mem[t].m \notin {"nf", "rpc"}))
          /\ LET cls(t) == IF choice[t] = "asis" THEN Classify(T, t)
                           ELSE IF Classify(T, t) = "dup" THEN "ok" ELSE "dup"
                 rsv(t) == cls(t) \in {"ok", "nf"} /\ mem[t].id # "" /\ mem[t].k = "call"
             IN  /\ mem' = [t \in DOMAIN mem |-> IF t \in SeqSet(T)
                                                 THEN [mem[t] EXCEPT !.cls = cls(t), !.st = IF cls(t) = "ok" THEN "held" ELSE "static"]
                                                 ELSE mem[t]]
                 /\ used' = [id \in DOMAIN used \cup {mem[t].id : t \in {s \in SeqSet(T) : rsv(s)}} |->
                               IF id \in DOMAIN used THEN used[id]
                               ELSE CHOOSE t \in SeqSet(T) : rsv(t) /\ mem[t].id = id]
     /\ units' = [units EXCEPT ![u].st = "held", ![u].live = ~stopped]
  /\ UNCHANGED <<l, conc, push, rq, running, stopped, pend, causes, cancelOK, hcanc, cbs, notes, waitRet, rdDone, sendBad, stopOpen>>

\* Pass: the held batch gets through the notification barrier; only now may its handlers start.
\* C03: only when every notification of earlier batches has returned.
Dispatch ==
  /\ l <= Len(Trace) /\ Held # {}
  /\ LET u == CHOOSE v \in Held : TRUE  T == units[u].tags IN
     /\ Imp("C03", EarlierNotesDone(u))
     /\ mem' = [t \in DOMAIN mem |-> IF t \in SeqSet(T) /\ mem[t].st = "held" THEN [mem[t] EXCEPT !.st = "ready"] ELSE mem[t]]
     /\ units' = [units EXCEPT ![u].st = "disp"]
  /\ UNCHANGED <<l, conc, push, rq, used, running, stopped, pend, causes, cancelOK, hcanc, cbs, notes, waitRet, rdDone, sendBad, stopOpen>>

(***************************************************************************)
(* Handlers.                                                               *)
(***************************************************************************)
\* cancelOK also carries two kinds of marks: "__base" (the base context every request context derives from has
\* ended) and "done:" \o t (t was dispatched and waiting for a slot - every slot taken - when its cancellation
\* completed: its handler must never run, C06)
BaseDone == "__base" \in cancelOK
Cancelled(t) == t \in cancelOK \/ BaseDone \/ (stopped /\ mem[t].id # "")
Saturated == Cardinality(running) >= conc
\* dispatched calls that have not started.  (Where the duplicate-id verdict is not judged - see Dequeue - a call may
\* have been classified either way; a true duplicate never runs anyway, so including it costs nothing.)
WaitingCalls == {x \in DOMAIN mem : mem[x].k = "call" /\ (mem[x].st = "ready" \/ (mem[x].st = "static" /\ mem[x].cls = "dup"))}

HasBase == "base" \in DOMAIN Ev /\ Ev.base # ""
HStart ==
  /\ IsEvent("HStart")
  /\ LET t == Ev.tag IN
     /\ t \in DOMAIN mem
     /\ t \notin running
     /\ \/ mem[t].st = "ready"
        \/ (mem[t].st = "held" /\ ~("C03" \in Enforce))     \* started before its batch passed the barrier
        \* a member that must never run (invalid / unknown method: C02; duplicate id: C07;
        \* dropped or discarded by the stop: C08; filtered reply: C09)
        \/ /\ mem[t].st = "static"
           /\ Imp("C02", mem[t].cls \notin {"inv", "nf", "reply"})
           /\ mem[t].cls # "dup"       \* (where C07 is not judged the verdict itself may be flipped at Dequeue, but a
                                       \*  member taken for a duplicate behaves like one: it never runs ...)
        \/ /\ mem[t].st = "gone"
           /\ Imp("C08", mem[t].cls \notin {"dropped", "discarded"})
           /\ Imp("C09", mem[t].cls \notin {"matched", "droppedreply"})
           /\ Imp("C01", FALSE)
     /\ Imp("C06", Cardinality(running) < conc)
     /\ Imp("C06", ("done:" \o t) \notin cancelOK)   \* cancelled while it waited for a slot: never runs
     /\ Imp("C01", mem[t].st # "done")          \* exactly one invocation
     /\ Imp("C17", Ev.inb)
     \* where NewContext is in use every request gets a base context of its own (the harness numbers them): two handlers
     \* on one base context would be cancelled by each other's base ("ctx:<n>" is the third kind of mark in cancelOK)
     /\ Imp("C07", HasBase => ("ctx:" \o Ev.base) \notin cancelOK)
     /\ cancelOK' = IF HasBase THEN cancelOK \cup {"ctx:" \o Ev.base} ELSE cancelOK
     /\ running' = running \cup {t}
     /\ mem' = [mem EXCEPT ![t].st = "run"]
  /\ UNCHANGED <<conc, push, units, rq, used, stopped, pend, causes, hcanc, cbs, notes, waitRet, rdDone, sendBad, stopOpen>>

HCancel ==
  /\ IsEvent("HCancel")
  /\ LET t == Ev.tag IN
     /\ t \in running
     /\ Imp("C07", Cancelled(t))
     /\ hcanc' = hcanc \cup {t}
  /\ UNCHANGED <<conc, push, mem, units, rq, used, running, stopped, pend, causes, cancelOK, cbs, notes, waitRet, rdDone, sendBad, stopOpen>>

HExit ==
  /\ IsEvent("HExit")
  /\ LET t == Ev.tag IN
     /\ t \in running
     /\ running' = running \ {t}
     /\ mem' = [mem EXCEPT ![t].st = "done", ![t].out = Ev.out]
  /\ UNCHANGED <<conc, push, units, rq, used, stopped, pend, causes, cancelOK, hcanc, cbs, notes, waitRet, rdDone, sendBad, stopOpen>>

(***************************************************************************)
(* Send: every record the server passes to the channel must be explained.  *)
(***************************************************************************)
CodeOf(out) == CASE out = "ok" -> 0
                 [] out = "err:plain" -> -32098
                 [] out = "ctxerr" -> -32097
                 [] out = "err:7" -> 7
                 [] out = "err:-32600" -> -32600
                 [] out = "err:-32700" -> -32700
                 [] out = "err:-32602" -> -32602
                 [] out = "err:-32603" -> -32603
                 [] out = "err:0" -> 0
                 [] out = "rawbad" -> -32098
                 [] OTHER -> 1

IdText(x) == IF x.echo = "" THEN "null" ELSE x.echo

\* does item it answer member t?  (t belongs to a dispatched unit)
ItemOK(it, t) ==
  LET x == mem[t] IN
  /\ Imp("C01", x.cls = "ok" => it.id = IdText(x))
  /\ Imp("C02", x.cls # "ok" => it.id = IdText(x))
  /\ it.v = "2.0"
  /\ CASE x.st = "done" ->
            \* exactly the outcome of the one invocation
            \* (the built-in rpc.serverInfo returns its own payload, not the member tag)
            IF x.out \in {"ok", "rawok"} THEN Imp("C01", it.kind = "result" /\ (it.tag = t \/ x.m = "info"))
            ELSE IF x.out = "err:baddata" THEN Imp("C01", it.kind = "error")   \* an *Error that cannot be encoded as it stands: an error object all the same
            ELSE Imp("C01", it.kind = "error" /\ it.code = CodeOf(x.out))
       [] x.st = "ready" ->
            \* never ran: only a justified cancellation while waiting for a slot explains it
            /\ Imp("C01", it.kind = "error")
            /\ Imp("C06", it.kind = "error" /\ it.code = -32097)
            /\ Imp("C07", Cancelled(t))
       [] x.st = "static" ->
            /\ Imp("C01", it.kind = "error")
            /\ CASE x.cls = "nf"    -> Imp("C02", it.code = -32601)
                 [] x.cls = "inv"   -> Imp("C02", it.code \in {-32700, -32600})
                 [] x.cls = "reply" -> Imp("C02", it.code = -32600)
                 [] x.cls = "dup"   -> it.code = -32600 /\ it.dup      \* (... and is answered as one)
                 [] OTHER -> TRUE
            /\ Imp("C07", x.cls # "dup" => ~it.dup)
       [] OTHER -> FALSE

ReplyGuard(u) ==   \* the Send event can be the answer to unit u
  LET T   == units[u].tags
      rep == SelectSeq(T, Reportable)
      its == Ev.items
  IN  /\ units[u].st = "disp" /\ units[u].live
      /\ \A t \in SeqSet(T) : mem[t].st \in {"done", "static", "gone", "ready"}
      /\ Imp("C01", \A t \in SeqSet(T) : mem[t].st = "ready" => mem[t].id # "")   \* only calls can be answered without running
      /\ Imp("C01", Len(its) = Len(rep))
      /\ Len(its) >= 1
      /\ Imp("C01", (Ev.shape = "array") <=> units[u].arr)
      /\ Len(its) = Len(rep) => \A i \in 1..Len(rep) : ItemOK(its[i], rep[i])
\* ... and evidently is: every item carries the tag its handler returned, member by member.  When such a
\* reading exists it is the one taken (a property that does not judge ids or payloads admits any other
\* finished unit, or none, as the explanation as well: 2^n readings of n replies, all of them weaker).
Natural(u) ==
  LET rep == SelectSeq(units[u].tags, Reportable) IN
  /\ Len(Ev.items) = Len(rep)
  /\ \A i \in 1..Len(rep) : Ev.items[i].tag \in {"", rep[i]}
  /\ \E i \in 1..Len(rep) : Ev.items[i].tag # ""
HasNatural == \E u \in 1..Len(units) : ReplyGuard(u) /\ Natural(u)
ReplyFor(u) ==   \* the Send event answers unit u
  LET T == units[u].tags IN
      /\ ReplyGuard(u)
      /\ HasNatural => Natural(u)
      /\ units' = [units EXCEPT ![u].st = "sent"]
      \* the reply releases the reservations held by the unit's members
      /\ used' = [id \in {i \in DOMAIN used : used[i] \notin SeqSet(T)} |-> used[id]]
      \* a member answered without having run is finished now
      /\ mem' = [t \in DOMAIN mem |-> IF t \in SeqSet(T) /\ mem[t].st = "ready" THEN [mem[t] EXCEPT !.st = "static", !.cls = "cancelled"] ELSE mem[t]]
      /\ UNCHANGED <<cbs, notes>>

DirectFor(u) ==  \* the Send is the direct error for an undecodable / empty record
  /\ units[u].st = "direct"
  /\ Len(Ev.items) = 1 /\ Ev.shape = "object"
  /\ LET it == Ev.items[1] IN
     /\ it.kind = "error" /\ it.id = "null" /\ it.v = "2.0"
     /\ Imp("C02", it.code = IF units[u].kind = "garbage" THEN -32700 ELSE -32600)
  /\ units' = [units EXCEPT ![u].st = "sent"]
  /\ UNCHANGED <<used, mem, cbs, notes>>

PushNoteSend ==
  /\ Len(Ev.items) = 1 /\ Ev.shape = "object" /\ Ev.items[1].kind = "request" /\ Ev.items[1].id = ""
  /\ Imp("C09", push /\ notes.open > notes.sent)
  /\ notes' = [notes EXCEPT !.sent = @ + 1]
  /\ UNCHANGED <<used, mem, cbs, units>>

PushCallSend ==
  /\ Len(Ev.items) = 1 /\ Ev.shape = "object" /\ Ev.items[1].kind = "request" /\ Ev.items[1].id # ""
  /\ \E c \in DOMAIN cbs :
       /\ cbs[c].st = "open"
       /\ Ev.items[1].tag = c
       /\ Imp("C09", push)
       /\ Imp("C09", \A d \in DOMAIN cbs : cbs[d].st = "sent" => cbs[d].id # Ev.items[1].id)
       /\ cbs' = [cbs EXCEPT ![c].st = "sent", ![c].id = Ev.items[1].id]
  /\ UNCHANGED <<used, mem, notes, units>>

SendOK ==
  /\ IsEvent("Send") /\ Ev.ok
  /\ Imp("C10", Ev.shape \in {"object", "array"})
  /\ Imp("C13", Ev.oneline)
  /\ \/ \E u \in 1..Len(units) : ReplyFor(u)
     \/ \E u \in 1..Len(units) : DirectFor(u)
     \/ PushNoteSend
     \/ PushCallSend
     \/ /\ ~("C01" \in Enforce \/ "C02" \in Enforce \/ "C09" \in Enforce \/ "C07" \in Enforce)
        /\ ~HasNatural
        \* unexplained output is only judged by those - except that C06 judges the answer given to a call
        \* that never started (it must be the cancellation error): such a record has to be a unit's reply
        /\ Imp("C06", ~\E i \in 1..Len(Ev.items) : \E t \in DOMAIN mem :
                           /\ (mem[t].st = "ready" \/ (mem[t].st = "static" /\ mem[t].cls = "dup"))   \* (dup: possibly a flipped verdict)
                           /\ mem[t].id # "" /\ Ev.items[i].kind \in {"error", "result"}
                           /\ Ev.items[i].id = IdText(mem[t]))
        /\ UNCHANGED <<units, used, mem, cbs, notes>>
  /\ UNCHANGED <<conc, push, rq, running, stopped, pend, causes, cancelOK, hcanc, waitRet, rdDone, sendBad, stopOpen>>

\* A Send that the channel refused (closed or failing): nothing was delivered; if it was the
\* reply of a unit the reservations are released all the same.
SendFailed ==
  /\ IsEvent("Send") /\ ~Ev.ok
  /\ \/ \E u \in 1..Len(units) :
          /\ units[u].st \in {"disp", "direct"}
          /\ \A t \in SeqSet(units[u].tags) : mem[t].st \in {"done", "static", "gone", "ready"}
          /\ units' = [units EXCEPT ![u].st = "sent"]
          /\ used' = [id \in {i \in DOMAIN used : used[i] \notin SeqSet(units[u].tags)} |-> used[id]]
          /\ mem' = [t \in DOMAIN mem |-> IF t \in SeqSet(units[u].tags) /\ mem[t].st = "ready" THEN [mem[t] EXCEPT !.st = "static", !.cls = "cancelled"] ELSE mem[t]]
          /\ UNCHANGED <<cbs, notes>>
     \/ /\ notes.open > notes.sent /\ notes' = [notes EXCEPT !.sent = @ + 1] /\ UNCHANGED <<units, used, mem, cbs>>
     \/ \E c \in DOMAIN cbs : /\ cbs[c].st = "open" /\ Len(Ev.items) = 1 /\ Ev.items[1].tag = c
                              /\ cbs' = [cbs EXCEPT ![c].st = "sent", ![c].id = Ev.items[1].id, ![c].reply = "sendfailed"]
                              /\ UNCHANGED <<units, used, mem, notes>>
  /\ UNCHANGED <<conc, push, rq, running, stopped, pend, causes, cancelOK, hcanc, waitRet, rdDone, sendBad, stopOpen>>

(***************************************************************************)
(* Stop causes and the close of the channel.                               *)
(***************************************************************************)
StopB == /\ IsEvent("StopB") /\ stopOpen' = TRUE /\ pend' = pend \cup {"stop"}
         /\ UNCHANGED <<conc, push, mem, units, rq, used, running, stopped, causes, cancelOK, hcanc, cbs, notes, waitRet, rdDone, sendBad>>
StopE == /\ IsEvent("StopE") /\ stopOpen' = FALSE
         /\ Imp("C08", stopped)                    \* Stop returns only after the server has stopped
         /\ pend' = pend \ {"stop"}
         /\ UNCHANGED <<conc, push, mem, units, rq, used, running, stopped, causes, cancelOK, hcanc, cbs, notes, waitRet, rdDone, sendBad>>

RecvErr ==
  /\ IsEvent("RecvErr")
  /\ rq = <<>>
  /\ pend' = pend \cup {Ev.kind}
  /\ rdDone' = TRUE
  /\ UNCHANGED <<conc, push, mem, units, rq, used, running, stopped, causes, cancelOK, hcanc, cbs, notes, waitRet, sendBad, stopOpen>>

\* stopLocked: the library closes its channel.  Queued calls are dropped, queued
\* notifications are retained one per unit, reservations are released.
RetainedOf(u) == SelectSeq(units[u].tags, LAMBDA t : IsNoteLike(mem[t]))
RECURSIVE Singles(_, _)
Singles(us, acc) ==   \* us: sequence of unit indices still queued, in order
  IF us = <<>> THEN acc
  ELSE LET u == Head(us)  R == RetainedOf(u) IN
       Singles(Tail(us), acc \o [i \in 1..Len(R) |-> [tags |-> <<R[i]>>, arr |-> units[u].arr, st |-> "queued", live |-> FALSE, kind |-> "msg"]])
RECURSIVE SortedSeq(_)
SortedSeq(S) == IF S = {} THEN <<>> ELSE LET m == CHOOSE x \in S : \A y \in S : x <= y IN <<m>> \o SortedSeq(S \ {m})

ChClose ==
  /\ IsEvent("ChClose")
  /\ Imp("C10", ~stopped)                    \* Close exactly once per Start
  /\ Imp("C08", ~stopped => pend # {})       \* the server never closes its channel without a cause
  /\ IF stopped THEN UNCHANGED <<stopped, causes, units, mem, used>>
     ELSE /\ stopped' = TRUE /\ causes' = pend
          /\ LET q == SortedSeq(Queued)
                 new == Singles(q, <<>>)
                 base == Len(units)
             IN  /\ units' = [u \in 1..Len(units) |-> IF u \in Queued THEN [units[u] EXCEPT !.st = "void"] ELSE units[u]] \o new
                 /\ mem' = [t \in DOMAIN mem |->
                              IF mem[t].u \in Queued
                              THEN IF IsNoteLike(mem[t])
                                   THEN [mem[t] EXCEPT !.u = base + CHOOSE i \in 1..Len(new) : new[i].tags[1] = t]
                                   ELSE [mem[t] EXCEPT !.st = "gone", !.cls = "dropped"]
                              ELSE mem[t]]
          /\ used' = EmptyFn
  \* the stop cancels the context of every outstanding callback: it must return by the next quiescent point
  /\ cbs' = [c \in DOMAIN cbs |-> IF cbs[c].st = "sent" THEN [cbs[c] EXCEPT !.ctxend = TRUE] ELSE cbs[c]]
  /\ UNCHANGED <<conc, push, rq, running, pend, cancelOK, hcanc, notes, waitRet, rdDone, sendBad, stopOpen>>

(***************************************************************************)
(* CancelRequest.                                                          *)
(***************************************************************************)
CancelB ==
  /\ IsEvent("CancelB")
  /\ cancelOK' = IF Ev.id \in DOMAIN used THEN cancelOK \cup {used[Ev.id]} ELSE cancelOK
  /\ UNCHANGED <<conc, push, mem, units, rq, used, running, stopped, pend, causes, hcanc, cbs, notes, waitRet, rdDone, sendBad, stopOpen>>
\* CancelRequest has returned.  (Mostly the harness runs it while every other goroutine is parked or blocked, and the
\* owner of the id is the one CancelB saw.  A probe issues it while a Send is held inside the server's lock: it then waits
\* for that lock and takes effect later, on whoever owns the id by then - a reply may have gone out and a later call taken
\* the id meanwhile.  The owner at its return is therefore cancellable as well.)
CancelE == /\ IsEvent("CancelE")
           /\ cancelOK' = (IF Saturated THEN cancelOK \cup {"done:" \o t : t \in {x \in WaitingCalls : mem[x].id = Ev.id}} ELSE cancelOK)
                             \cup (IF Ev.id \in DOMAIN used THEN {used[Ev.id]} ELSE {})
           /\ UNCHANGED <<conc, push, mem, units, rq, used, running, stopped, pend, causes, hcanc, cbs, notes, waitRet, rdDone, sendBad, stopOpen>>
\* The context ServerOptions.NewContext hands out has ended: every request context, present and future, is done.
BaseEnd == /\ IsEvent("BaseEnd")
           /\ cancelOK' = cancelOK \cup {"__base"} \cup (IF Saturated THEN {"done:" \o t : t \in WaitingCalls} ELSE {})
           /\ UNCHANGED <<conc, push, mem, units, rq, used, running, stopped, pend, causes, hcanc, cbs, notes, waitRet, rdDone, sendBad, stopOpen>>

(***************************************************************************)
(* Server push.                                                            *)
(***************************************************************************)
NotifyB == /\ IsEvent("NotifyB") /\ notes' = [notes EXCEPT !.open = @ + 1]
           /\ UNCHANGED <<conc, push, mem, units, rq, used, running, stopped, pend, causes, cancelOK, hcanc, cbs, waitRet, rdDone, sendBad, stopOpen>>
NotifyE ==
  /\ IsEvent("NotifyE")
  /\ Imp("C09", ~push => Ev.res = "unsupported")
  /\ Imp("C09", push => Ev.res # "unsupported")
  /\ Imp("C09", Ev.res = "connclosed" => stopped)
  \* (open: calls begun and not refused; sent: id-less requests handed to the channel; done: calls that returned after
  \* handing one over.  Notify calls may overlap - two handlers pushing at once - so a return is matched with *a* request
  \* not yet accounted for, not with the latest one.)
  /\ Imp("C09", Ev.res \notin {"unsupported", "connclosed"} => notes.sent > notes.done)   \* exactly one request was transmitted for it
  /\ Imp("C09", Ev.res \in {"unsupported", "connclosed"} => notes.sent < notes.open)      \* nothing was transmitted
  /\ Imp("C09", (push /\ ~stopped /\ ~sendBad) => Ev.res = "ok")
  /\ notes' = IF Ev.res \in {"unsupported", "connclosed"}
              THEN (IF notes.sent < notes.open THEN [notes EXCEPT !.open = @ - 1] ELSE notes)
              ELSE (IF notes.sent > notes.done THEN [notes EXCEPT !.done = @ + 1] ELSE notes)
  /\ UNCHANGED <<conc, push, mem, units, rq, used, running, stopped, pend, causes, cancelOK, hcanc, cbs, waitRet, rdDone, sendBad, stopOpen>>

CallbackB ==
  /\ IsEvent("CallbackB") /\ Ev.c \notin DOMAIN cbs
  /\ cbs' = [c \in DOMAIN cbs \cup {Ev.c} |-> IF c = Ev.c THEN [id |-> "", st |-> "open", ctxend |-> FALSE, reply |-> "-", stoppedAtB |-> stopped, taken |-> FALSE, late |-> FALSE] ELSE cbs[c]]
  /\ UNCHANGED <<conc, push, mem, units, rq, used, running, stopped, pend, causes, cancelOK, hcanc, notes, waitRet, rdDone, sendBad, stopOpen>>

\* The reader has handed a reply to the callback that bears its id (the code's critical section, hook srv.cbreply): the
\* record has been processed by then, and from here on the reply is what Callback returns - a context that ends later is late.
CbTaken ==
  /\ IsEvent("CbTaken")
  /\ Imp("C09", \E c \in DOMAIN cbs : cbs[c].id = Ev.id /\ cbs[c].reply \in DOMAIN mem)
  /\ cbs' = [c \in DOMAIN cbs |-> IF cbs[c].id = Ev.id /\ cbs[c].reply \in DOMAIN mem /\ cbs[c].st = "sent" THEN [cbs[c] EXCEPT !.taken = TRUE] ELSE cbs[c]]
  /\ UNCHANGED <<conc, push, mem, units, rq, used, running, stopped, pend, causes, cancelOK, hcanc, notes, waitRet, rdDone, sendBad, stopOpen>>

CtxEnd ==
  /\ IsEvent("CtxEnd")
  /\ cbs' = IF Ev.c \in DOMAIN cbs THEN [cbs EXCEPT ![Ev.c].ctxend = TRUE, ![Ev.c].late = cbs[Ev.c].taken] ELSE cbs
  /\ UNCHANGED <<conc, push, mem, units, rq, used, running, stopped, pend, causes, cancelOK, hcanc, notes, waitRet, rdDone, sendBad, stopOpen>>

CallbackE ==
  /\ IsEvent("CallbackE") /\ Ev.c \in DOMAIN cbs /\ cbs[Ev.c].st \in {"open", "sent"}
  /\ LET c == cbs[Ev.c] IN
     /\ Imp("C09", ~push <=> Ev.res = "unsupported")
     /\ Imp("C09", Ev.res \in {"unsupported", "connclosed"} => c.st = "open")   \* nothing was transmitted
     /\ Imp("C09", Ev.res = "connclosed" => stopped)
     /\ Imp("C09", (push /\ ~c.stoppedAtB /\ ~stopped) => Ev.res \notin {"connclosed"})
     \* a reply: it is the reply that bore this callback's id, with its payload
     /\ Imp("C09", Ev.res = "reply" => /\ c.reply \in DOMAIN mem /\ ~mem[c.reply].rerr
                                       /\ Ev.tag = c.reply)
     /\ Imp("C09", Ev.res = "rpcerror" => /\ c.reply \in DOMAIN mem /\ mem[c.reply].rerr
                                          /\ Ev.tag = c.reply /\ Ev.code = -7)
     \* the context's own error: its context ended, the issuing handler was cancelled, or the server stopped
     /\ Imp("C09", Ev.res = "ctxerr" => ((c.ctxend /\ ~c.late) \/ stopped \/ hcanc # {}))
     /\ Imp("C09", Ev.res = "error" => (sendBad \/ stopped))
     /\ Imp("C09", Ev.res \in {"reply", "rpcerror", "ctxerr"} => c.st = "sent")
  /\ cbs' = [cbs EXCEPT ![Ev.c].st = "ret"]
  /\ UNCHANGED <<conc, push, mem, units, rq, used, running, stopped, pend, causes, cancelOK, hcanc, notes, waitRet, rdDone, sendBad, stopOpen>>

(***************************************************************************)
(* WaitStatus.                                                             *)
(***************************************************************************)
\* (a notification whose context - the one ServerOptions.NewContext handed out - has ended was handed to the
\* invocation all the same; the wait for a slot it never got is the application's doing, not the stop's)
ValidNotesServed ==
  \A t \in DOMAIN mem : (mem[t].k = "note" /\ mem[t].m \notin {"nf", "rpc"} /\ mem[t].st # "gone") =>
                             (mem[t].st = "done" \/ (BaseDone /\ mem[t].st = "ready"))

WaitStatus ==
  /\ IsEvent("WaitStatus")
  /\ Imp("C08", ~waitRet)
  /\ Imp("C08", stopped)
  /\ Imp("C08", running = {})                    \* only after every handler has returned
  /\ Imp("C08", ValidNotesServed)                \* notifications received before the stop were still run
  /\ Imp("C08", (IF Ev.stopped THEN 1 ELSE 0) + (IF Ev.closed THEN 1 ELSE 0) + (IF Ev.err # "nil" THEN 1 ELSE 0) = 1)
  /\ Imp("C08", Ev.stopped => "stop" \in causes)
  /\ Imp("C08", Ev.closed => (causes \cap {"eof", "closed"}) # {})
  /\ Imp("C08", Ev.err # "nil" => "err" \in causes)
  /\ waitRet' = TRUE
  /\ UNCHANGED <<conc, push, mem, units, rq, used, running, stopped, pend, causes, cancelOK, hcanc, cbs, notes, rdDone, sendBad, stopOpen>>

(***************************************************************************)
(* Quiescent: every goroutine is durably blocked and no gate is occupied.  *)
(* Whatever the properties oblige the server to do must have happened.     *)
(***************************************************************************)
Startable(t) == mem[t].st = "ready" /\ ~Cancelled(t)
Answerable(u) == /\ units[u].st = "disp" /\ units[u].live
                 /\ \E t \in SeqSet(units[u].tags) : Reportable(t)
                 /\ \A t \in SeqSet(units[u].tags) : Finished(t) \/ (mem[t].st = "ready" /\ Cancelled(t))

Quiescent ==
  /\ IsEvent("Quiescent")
  /\ rq = <<>>                                              \* the reader has dealt with what it received
  /\ ~(Queued # {} /\ Held = {})                            \* every possible dequeue has been taken
  /\ ~(Held # {} /\ EarlierNotesDone(CHOOSE v \in Held : TRUE))   \* ... and every possible pass of the barrier
  \* work conservation (C06) / later requests are not held up by a running call (C03)
  \* ... and a call that could run but never does will never be answered (C01)
  /\ ("C06" \in Enforce \/ "C03" \in Enforce \/ "C01" \in Enforce) =>
        ~(\E t \in DOMAIN mem : Startable(t) /\ Cardinality(running) < conc)
  \* C01: nothing answerable is left unanswered while the channel works
  /\ Imp("C01", (~stopped /\ ~sendBad) => ~\E u \in 1..Len(units) : Answerable(u) \/ units[u].st = "direct")
  \* C07: a running call whose id was named by CancelRequest has seen the cancellation
  /\ Imp("C07", \A t \in running : t \in cancelOK => t \in hcanc)
  \* C08: once Recv has failed (end of stream or any error) the server has stopped
  /\ Imp("C08", rdDone => stopped)
  \* C08: every call in flight at the stop has seen its context cancelled
  /\ Imp("C08", stopped => \A t \in running : mem[t].id # "" => t \in hcanc)
  \* C08: the server has fully stopped => WaitStatus has returned
  /\ Imp("C08", (stopped /\ rdDone /\ running = {} /\ Queued = {} /\ Held = {} /\ ~stopOpen
                 /\ \A u \in 1..Len(units) : units[u].st \notin {"disp"} \/ ~Answerable(u)) => waitRet)
  \* C09: a callback whose reply arrived, whose context ended or whose server stopped has returned
  /\ Imp("C09", \A c \in DOMAIN cbs : (cbs[c].st = "sent" /\ (cbs[c].reply # "-" \/ cbs[c].ctxend \/ stopped)) => FALSE)
  /\ UNCHANGED <<conc, push, mem, units, rq, used, running, stopped, pend, causes, cancelOK, hcanc, cbs, notes, waitRet, rdDone, sendBad, stopOpen>>

(***************************************************************************)
(* Harness facts and terminal events.                                      *)
(***************************************************************************)
Reset ==
  /\ IsEvent("Reset")
  /\ conc' = Ev.conc /\ push' = Ev.push
  /\ mem' = EmptyFn /\ units' = <<>> /\ rq' = <<>> /\ used' = EmptyFn /\ running' = {}
  /\ stopped' = FALSE /\ pend' = {} /\ causes' = {} /\ cancelOK' = {} /\ hcanc' = {}
  /\ cbs' = EmptyFn /\ notes' = [open |-> 0, sent |-> 0, bp |-> 0, done |-> 0] /\ waitRet' = FALSE /\ rdDone' = FALSE
  /\ sendBad' = FALSE /\ stopOpen' = FALSE

Start ==   \* (re)start on a fresh channel: a new generation
  /\ IsEvent("Start")
  /\ Imp("C08", Ev.gen > 1 => waitRet)
  /\ mem' = EmptyFn /\ units' = <<>> /\ rq' = <<>> /\ used' = EmptyFn /\ running' = {}
  /\ stopped' = FALSE /\ pend' = {} /\ causes' = {} /\ cancelOK' = cancelOK \cap {"__base"} /\ hcanc' = {}   \* an ended base context stays ended
  /\ UNCHANGED cbs           \* a callback outstanding across a restart is still outstanding
  /\ notes' = [open |-> 0, sent |-> 0, bp |-> 0, done |-> 0] /\ waitRet' = FALSE /\ rdDone' = FALSE
  /\ sendBad' = FALSE /\ stopOpen' = FALSE
  /\ UNCHANGED <<conc, push>>

SendFailArmed == IsEvent("SendFailArmed") /\ sendBad' = TRUE
                 /\ UNCHANGED <<conc, push, mem, units, rq, used, running, stopped, pend, causes, cancelOK, hcanc, cbs, notes, waitRet, rdDone, stopOpen>>

\* the transient failure is over: Sends work again (what failed meanwhile stays failed; nothing is sent twice)
SendHealed == IsEvent("SendHealed") /\ sendBad' = FALSE
              /\ UNCHANGED <<conc, push, mem, units, rq, used, running, stopped, pend, causes, cancelOK, hcanc, cbs, notes, waitRet, rdDone, stopOpen>>

Final ==
  /\ IsEvent("Final")
  /\ Imp("C07", Ev.reserved = 0)         \* no reservation survives the connection
  /\ Imp("C09", Ev.callbacks = 0)
  /\ Imp("C08", Ev.qlen = 0 /\ ~Ev.running)
  /\ Imp("C10", Ev.closes = 1)
  /\ UNCHANGED <<conc, push, mem, units, rq, used, running, stopped, pend, causes, cancelOK, hcanc, cbs, notes, waitRet, rdDone, sendBad, stopOpen>>

\* The dispatcher reports (hook srv.barrier.pass) that the batch it held has passed the notification barrier: by now the
\* silent Dequeue and Dispatch steps of that batch have been taken (and the next batch has not been dequeued yet).
\* (notes.bp counts these reports; every one of them has its silent Dispatch.)
BarrierPass == /\ IsEvent("BarrierPass") /\ Held = {}
               /\ Cardinality({u \in 1..Len(units) : units[u].st \in {"disp", "sent"}}) >= notes.bp + 1
               /\ notes' = [notes EXCEPT !.bp = @ + 1]
               /\ UNCHANGED <<conc, push, mem, units, rq, used, running, stopped, pend, causes, cancelOK, hcanc, cbs, waitRet, rdDone, sendBad, stopOpen>>

\* Everything that can move without the channel operation the scenario holds (a Send or a Close in progress, its
\* caller possibly holding the server's lock) has moved.  Starting a dispatched request needs neither: the limit on
\* concurrency stays work conserving while a reply is on its way out (C06; C03 for what waits behind nothing but a slot).
QuiescentOp ==
  /\ IsEvent("QuiescentOp")
  \* (judged for a Send in progress on a connection nothing has begun to end: a stop under way cancels what waits)
  /\ (("C06" \in Enforce \/ "C03" \in Enforce) /\ Ev.op = "vchan.insend" /\ ~stopped /\ pend = {} /\ ~rdDone) =>
        ~(\E t \in DOMAIN mem : Startable(t) /\ Cardinality(running) < conc)
  /\ UNCHANGED <<conc, push, mem, units, rq, used, running, stopped, pend, causes, cancelOK, hcanc, cbs, notes, waitRet, rdDone, sendBad, stopOpen>>

\* events that carry no obligation for this contract
Ignored == /\ l <= Len(Trace) /\ Ev.ev \in {"PeerClose", "Teardown", "SB", "SE", "RB", "RE", "CB", "CE", "Drift"}
           /\ l' = l + 1
           /\ UNCHANGED <<conc, push, mem, units, rq, used, running, stopped, pend, causes, cancelOK, hcanc, cbs, notes, waitRet, rdDone, sendBad, stopOpen>>

\* What was passed to Channel.Send has been written into again afterwards (the channel may have handed those very bytes to
\* the peer): a reply or a push the peer can no longer read - never acceptable where replies (C01, C02) or pushes (C09) are judged
BufferReused == /\ l <= Len(Trace) /\ Ev.ev = "BufferReused"
                /\ Enforce \cap {"C01", "C02", "C09"} = {}
                /\ l' = l + 1
                /\ UNCHANGED <<conc, push, mem, units, rq, used, running, stopped, pend, causes, cancelOK, hcanc, cbs, notes, waitRet, rdDone, sendBad, stopOpen>>

\* Crash / Deadlock / Leak are never acceptable in a server scenario, whatever is being judged
Terminal == /\ l <= Len(Trace) /\ Ev.ev \in {"Crash", "Deadlock", "Leak"}
            /\ Enforce \cap {"C08", "C02", "C01", "C03", "C06", "C07", "C09"} = {}
            /\ l' = l + 1
            /\ UNCHANGED <<conc, push, mem, units, rq, used, running, stopped, pend, causes, cancelOK, hcanc, cbs, notes, waitRet, rdDone, sendBad, stopOpen>>

Next == \/ Reset \/ Start \/ RecvMsg \/ Enqueue \/ Dequeue \/ Dispatch \/ HStart \/ HCancel \/ HExit
        \/ SendOK \/ SendFailed \/ StopB \/ StopE \/ RecvErr \/ ChClose \/ CancelB \/ CancelE \/ BaseEnd
        \/ NotifyB \/ NotifyE \/ CallbackB \/ CtxEnd \/ CbTaken \/ CallbackE \/ WaitStatus \/ Quiescent
        \/ SendFailArmed \/ Final \/ BarrierPass \/ Ignored \/ Terminal \/ QuiescentOp \/ SendHealed \/ BufferReused

Spec == Init /\ [][Next]_vars

(***************************************************************************)
(* Acceptance: the whole trace was consumed by some behaviour.             *)
(***************************************************************************)
ASSUME TLCSet(1, 0)
Track == TLCSet(1, IF TLCGet(1) < l THEN l ELSE TLCGet(1))
Accepted == IF TLCGet(1) = Len(Trace) + 1 THEN TRUE
            ELSE /\ PrintT(<<"REJECTED_AT", TLCGet(1)>>)
                 /\ PrintT(<<"REJECTED_EVENT", ToJson(Trace[TLCGet(1)])>>)
                 /\ FALSE
================================================================================
