------------------------------- MODULE ServerHooks -------------------------------
(***************************************************************************)
(* Conformance of FREE-RUNNING executions (the repository's own test suite *)
(* run with the verif tag and VERIF_HOOKTRACE set) with the server model   *)
(* at the level of the linearisation-point events (vhook.Event): the queue *)
(* is FIFO and its logged lengths add up, every dequeued batch is assigned *)
(* member by member, a batch passes the notification barrier only when the *)
(* notifications of earlier batches have returned (C03), a handler starts  *)
(* only for a member of a batch that passed the barrier and at most once   *)
(* (C01), a batch is delivered only after all its handlers returned (C01), *)
(* nothing is enqueued after the stop and WaitStatus returns only after    *)
(* every handler returned (C08).  State is kept per server instance; a     *)
(* srv.start event begins a new generation.                                *)
(***************************************************************************)
EXTENDS Integers, Sequences, FiniteSets, TLC, Json, IOUtils
CONSTANTS Enforce
Trace == ndJsonDeserialize(IOEnv.TRACE)
VARIABLES l, S     \* S: server -> [q, cur, bat, hs, stopped]
vars == <<l, S>>
Imp(p, c) == (p \in Enforce) => c
Ev == Trace[l]
IsEvent(e) == l <= Len(Trace) /\ Ev.ev = e /\ l' = l + 1
Fresh == [q |-> <<>>, cur |-> [n |-> 0, mem |-> <<>>], bat |-> <<>>, hs |-> [x \in {} |-> "-"], stopped |-> FALSE]
St(s) == IF s \in DOMAIN S THEN S[s] ELSE Fresh
Upd(s, r) == S' = [x \in DOMAIN S \cup {s} |-> IF x = s THEN r ELSE S[x]]

Init == l = 1 /\ S = [x \in {} |-> Fresh]
Reset == IsEvent("Reset") /\ S' = [x \in {} |-> Fresh]
Start == IsEvent("srv.start") /\ Upd(Ev.srv, Fresh)

Enqueue == /\ IsEvent("srv.enqueue")
           /\ LET s == St(Ev.srv) IN
              /\ Imp("BIND", Len(s.q) + 1 = Ev.q)              \* the logged queue length is the model's
              /\ Imp("BIND", ~s.stopped)                        \* nothing is enqueued after the stop
              /\ Upd(Ev.srv, [s EXCEPT !.q = Append(@, Ev.n)])
Dequeue == /\ IsEvent("srv.dequeue")
           /\ LET s == St(Ev.srv) IN
              /\ Imp("BIND", s.q # <<>> /\ Head(s.q) = Ev.n /\ Len(s.q) - 1 = Ev.q /\ s.cur.n = Len(s.cur.mem))   \* FIFO, one batch at a time
              /\ Upd(Ev.srv, [s EXCEPT !.q = IF s.q = <<>> THEN <<>> ELSE Tail(@), !.cur = [n |-> Ev.n, mem |-> <<>>]])
Assign == /\ IsEvent("srv.assign")
          /\ LET s == St(Ev.srv)
                 m == [req |-> Ev.req, note |-> Ev.note, runs |-> Ev.err = "nil"]
                 mem2 == Append(s.cur.mem, m)
             IN /\ Imp("BIND", Len(s.cur.mem) < s.cur.n)
                /\ IF Len(mem2) = s.cur.n
                   THEN Upd(Ev.srv, [s EXCEPT !.cur = [n |-> 0, mem |-> <<>>],
                                              !.bat = Append(@, [mem |-> mem2, passed |-> FALSE, delivered |-> FALSE])])
                   ELSE Upd(Ev.srv, [s EXCEPT !.cur.mem = mem2])
\* has this request's handler finished (or never been able to start)?
Done(s, r) == r \in DOMAIN s.hs /\ s.hs[r] \in {"done", "nostart"}
NotesBeforeDone(s, b) == \A j \in 1..(b - 1) : \A i \in 1..Len(s.bat[j].mem) :
                            (s.bat[j].mem[i].note /\ s.bat[j].mem[i].runs) => Done(s, s.bat[j].mem[i].req)
Pass == /\ IsEvent("srv.barrier.pass")
        /\ LET s == St(Ev.srv)
               un == {b \in 1..Len(s.bat) : ~s.bat[b].passed}
           IN IF un = {} THEN Imp("BIND", FALSE) /\ UNCHANGED S
              ELSE LET b == CHOOSE x \in un : \A y \in un : x <= y IN
                   /\ Imp("BIND", NotesBeforeDone(s, b))         \* the model passes the barrier only when every earlier notification has returned
                   /\ Upd(Ev.srv, [s EXCEPT !.bat[b].passed = TRUE])
BatchOf(s, r) == {b \in 1..Len(s.bat) : \E i \in 1..Len(s.bat[b].mem) : s.bat[b].mem[i].req = r}
HStart == /\ IsEvent("srv.hstart")
          /\ LET s == St(Ev.srv) IN
             /\ Imp("BIND", \E b \in BatchOf(s, Ev.req) : s.bat[b].passed)     \* the model starts handlers only behind the barrier
             \* C03 itself, on what this execution shows: every notification of an earlier batch has returned
             /\ Imp("C03", \A b \in BatchOf(s, Ev.req) : NotesBeforeDone(s, b))
             /\ Imp("C01", Ev.req \notin DOMAIN s.hs)                            \* exactly one invocation
             /\ Imp("C01", \E b \in BatchOf(s, Ev.req) : ~s.bat[b].delivered)
             /\ Upd(Ev.srv, [s EXCEPT !.hs = [x \in DOMAIN s.hs \cup {Ev.req} |-> IF x = Ev.req THEN "run" ELSE s.hs[x]]])
HExit == /\ IsEvent("srv.hexit")
         /\ LET s == St(Ev.srv) IN
            /\ Imp("BIND", Ev.req \in DOMAIN s.hs /\ s.hs[Ev.req] = "run")
            /\ Upd(Ev.srv, [s EXCEPT !.hs = [x \in DOMAIN s.hs \cup {Ev.req} |-> IF x = Ev.req THEN "done" ELSE s.hs[x]]])
AcqFail == /\ IsEvent("srv.acquire.fail")
           /\ LET s == St(Ev.srv) IN
              Upd(Ev.srv, [s EXCEPT !.hs = [x \in DOMAIN s.hs \cup {Ev.req} |-> IF x = Ev.req THEN "nostart" ELSE s.hs[x]]])
Deliver == /\ IsEvent("srv.deliver")
           /\ LET s == St(Ev.srv)
                  ready == {b \in 1..Len(s.bat) : s.bat[b].passed /\ ~s.bat[b].delivered
                                 /\ \A i \in 1..Len(s.bat[b].mem) : s.bat[b].mem[i].runs => Done(s, s.bat[b].mem[i].req)}
              IN IF ready = {} THEN Imp("C01", FALSE) /\ UNCHANGED S              \* a reply before all handlers of the batch returned
                 \* (which of several finished batches this delivery belongs to makes no difference later: take the oldest)
                 ELSE LET b == CHOOSE x \in ready : \A y \in ready : x <= y IN Upd(Ev.srv, [s EXCEPT !.bat[b].delivered = TRUE])
\* stopLocked drops the queued calls and re-queues the retained notifications one per batch (Ev.n of them)
Stop == /\ IsEvent("srv.stop") /\ Upd(Ev.srv, [St(Ev.srv) EXCEPT !.stopped = TRUE, !.q = [i \in 1..Ev.n |-> 1]])
WaitStatus == /\ IsEvent("srv.waitstatus")
              /\ LET s == St(Ev.srv) IN
                 /\ Imp("C08", s.stopped)
                 /\ Imp("C08", \A r \in DOMAIN s.hs : s.hs[r] # "run")          \* only after every handler has returned
              /\ UNCHANGED S
Other == /\ l <= Len(Trace)
         /\ Ev.ev \notin {"Reset", "srv.start", "srv.enqueue", "srv.dequeue", "srv.assign", "srv.barrier.pass", "srv.hstart", "srv.hexit",
                          "srv.acquire.fail", "srv.deliver", "srv.stop", "srv.waitstatus"}
         /\ l' = l + 1 /\ UNCHANGED S
Next == Reset \/ Start \/ Enqueue \/ Dequeue \/ Assign \/ Pass \/ HStart \/ HExit \/ AcqFail \/ Deliver \/ Stop \/ WaitStatus \/ Other
Spec == Init /\ [][Next]_vars
ASSUME TLCSet(1, 0)
Track == TLCSet(1, IF TLCGet(1) < l THEN l ELSE TLCGet(1))
Accepted == IF TLCGet(1) = Len(Trace) + 1 THEN TRUE
            ELSE /\ PrintT(<<"REJECTED_AT", TLCGet(1)>>)
                 /\ PrintT(<<"REJECTED_EVENT", ToJson(Trace[TLCGet(1)])>>)
                 /\ FALSE
================================================================================
