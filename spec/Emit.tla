---------------------------------- MODULE Emit ----------------------------------
(***************************************************************************)
(* C13 (emission half): the grammar of the messages the library emits and  *)
(* the product of character / value classes that every emission path is    *)
(* exercised with.  A message is [kind, hasId, hasMethod, hasParams,       *)
(* hasResult, hasError]; Wellformed states the JSON-RPC 2.0 shape rules.   *)
(* TLC enumerates the product of paths x method class sequences x value    *)
(* classes; the harness concretises each cell (fixed representatives plus  *)
(* seeded draws), pushes it through the real Client / Server / push /      *)
(* callback / Bridge path, captures the bytes handed to the channel and    *)
(* checks them with the library's own parser and an independent validator  *)
(* (that part of the oracle is decode(encode(x)) = x, computed in Go).     *)
(***************************************************************************)
EXTENDS Integers, Sequences, FiniteSets, TLC, Json, IOUtils

Paths == <<"call", "batch", "notify", "response", "errresponse", "pushnotify", "callback", "cbreply", "bridge">>
MClass == <<"ascii", "quote", "backslash", "lf", "tab", "nul", "del", "ctl", "html", "u2028", "latin", "astral", "rpcdot", "space">>
VClass == <<"absent", "null", "emptyobj", "emptyarr", "nested", "bignum", "rawws", "ctrlstr", "unicode", "map", "slice", "htmlstr">>
IdClass == <<"int", "neg", "exp", "frac", "str", "emptystr", "quotestr", "unistr", "bigint", "pctstr">>

\* shape rules of an emitted message
Msgs == [isReq : BOOLEAN, hasId : BOOLEAN, hasMethod : BOOLEAN, hasParams : BOOLEAN, hasResult : BOOLEAN, hasError : BOOLEAN]
Wellformed(m) == IF m.isReq THEN m.hasMethod /\ ~m.hasResult /\ ~m.hasError
                 ELSE m.hasId /\ ~m.hasMethod /\ ~m.hasParams /\ (m.hasResult # m.hasError)
\* what each path must emit
Shape(p) == CASE p \in {"call", "callback"} -> [isReq |-> TRUE, hasId |-> TRUE]
              [] p \in {"notify", "pushnotify"} -> [isReq |-> TRUE, hasId |-> FALSE]
              [] p = "batch" -> [isReq |-> TRUE, hasId |-> TRUE]
              [] OTHER -> [isReq |-> FALSE, hasId |-> TRUE]
ASSUME \A m \in Msgs : (m.isReq /\ Wellformed(m)) => ~m.hasResult
ASSUME Cardinality({m \in Msgs : Wellformed(m)}) = 4 + 2

\* method names: one or two classes
MSeqs == [i \in 1..(Len(MClass) + Len(MClass) * Len(MClass)) |->
            IF i <= Len(MClass) THEN <<MClass[i]>>
            ELSE <<MClass[((i - Len(MClass) - 1) \div Len(MClass)) + 1], MClass[((i - Len(MClass) - 1) % Len(MClass)) + 1]>>]

\* which value classes a path can carry as params (client params must be structured or absent)
ParamOK(p, v) == IF p \in {"call", "batch", "notify", "pushnotify", "callback", "bridge"} THEN v \notin {"ctrlstr", "unicode", "htmlstr", "bignum"} \/ TRUE ELSE TRUE

Cells == [i \in 1..(Len(Paths) * Len(MSeqs) * Len(VClass)) |->
            LET a == i - 1  v == VClass[(a % Len(VClass)) + 1]  r == a \div Len(VClass)
                ms == MSeqs[(r % Len(MSeqs)) + 1]  p == Paths[(r \div Len(MSeqs)) + 1]
            IN [path |-> p, method |-> ms, value |-> v, isReq |-> Shape(p).isReq, hasId |-> Shape(p).hasId]]
ASSUME JsonSerialize(IOEnv.OUT, [cells |-> Cells, ids |-> IdClass, ncells |-> Len(Cells)])
VARIABLE x
Spec == x = 0 /\ [][x' = x]_x
================================================================================
