------------------------------ MODULE LoopContract ------------------------------
(***************************************************************************)
(* C20 over observable events of server.Loop: what the accepter returned,  *)
(* newService / Assigner / Finish calls on the services, handler activity, *)
(* closes of the accepted connections, context cancellation, Loop's return.*)
(***************************************************************************)
EXTENDS Integers, Sequences, FiniteSets, TLC, Json, IOUtils
CONSTANTS Enforce
Trace == ndJsonDeserialize(IOEnv.TRACE)
VARIABLES l,
  conns,    \* conn -> [closed, peerClosed: "no" | "closed" | "failed" (the harness made its Recv fail), up]
  svcs,     \* svc  -> [asg: "-"|"ok"|"fail", fin, conn, running]
  ctxdone, accerr, loopret, hcanc
vars == <<l, conns, svcs, ctxdone, accerr, loopret, hcanc>>
Imp(p, c) == (p \in Enforce) => c
EmptyFn == [x \in {} |-> 0]
Ev == Trace[l]
IsEvent(e) == l <= Len(Trace) /\ Ev.ev = e /\ l' = l + 1

Init == l = 1 /\ conns = EmptyFn /\ svcs = EmptyFn /\ ctxdone = FALSE /\ accerr = "none" /\ loopret = "none" /\ hcanc = {}
Reset == IsEvent("Reset") /\ conns' = EmptyFn /\ svcs' = EmptyFn /\ ctxdone' = FALSE /\ accerr' = "none" /\ loopret' = "none" /\ hcanc' = {}

AcceptRet == /\ IsEvent("AcceptRet") /\ Ev.conn \notin DOMAIN conns
             /\ Imp("C20", loopret = "none")
             /\ conns' = [c \in DOMAIN conns \cup {Ev.conn} |-> IF c = Ev.conn THEN [closed |-> FALSE, peerClosed |-> "no", up |-> FALSE] ELSE conns[c]]
             /\ UNCHANGED <<svcs, ctxdone, accerr, loopret, hcanc>>
AcceptErr == /\ IsEvent("AcceptErr") /\ accerr' = Ev.kind
             \* what server.NetAccepter reports by itself (not a failure of the listener underneath) is a closed-listener
             \* error, and it comes only when the context has ended
             /\ Imp("C20", (Ev.net /\ ~Ev.injected) => (Ev.kind = "closing" /\ ctxdone))
             /\ UNCHANGED <<conns, svcs, ctxdone, loopret, hcanc>>
CtxCancel == /\ IsEvent("CtxCancel") /\ ctxdone' = TRUE /\ UNCHANGED <<conns, svcs, accerr, loopret, hcanc>>

NewService == /\ IsEvent("NewService")
              /\ Imp("C20", Ev.svc \notin DOMAIN svcs)                     \* a fresh service per connection
              /\ Imp("C20", Cardinality(DOMAIN svcs) < Cardinality(DOMAIN conns))   \* one newService call per accepted connection
              /\ svcs' = [s \in DOMAIN svcs \cup {Ev.svc} |-> IF s = Ev.svc THEN [asg |-> "-", fin |-> 0, conn |-> "", running |-> 0] ELSE svcs[s]]
              /\ UNCHANGED <<conns, ctxdone, accerr, loopret, hcanc>>
AssignerRet == /\ IsEvent("AssignerRet") /\ Ev.svc \in DOMAIN svcs
               /\ Imp("C20", svcs[Ev.svc].asg = "-")
               /\ svcs' = [svcs EXCEPT ![Ev.svc].asg = IF Ev.ok THEN "ok" ELSE "fail"]
               /\ UNCHANGED <<conns, ctxdone, accerr, loopret, hcanc>>

\* the server of a service has started on a connection (harness binding from the srv.start hook)
ServerUp == /\ IsEvent("ServerUp") /\ Ev.svc \in DOMAIN svcs /\ Ev.conn \in DOMAIN conns
            /\ Imp("C20", svcs[Ev.svc].asg = "ok")                          \* no server for a service whose Assigner failed
            /\ Imp("C20", svcs[Ev.svc].conn = "" /\ ~conns[Ev.conn].up)     \* one server per service and per connection
            /\ svcs' = [svcs EXCEPT ![Ev.svc].conn = Ev.conn]
            /\ conns' = [conns EXCEPT ![Ev.conn].up = TRUE]
            /\ UNCHANGED <<ctxdone, accerr, loopret, hcanc>>

HStart == /\ IsEvent("HStart") /\ Ev.svc \in DOMAIN svcs
          /\ Imp("C20", svcs[Ev.svc].asg = "ok" /\ svcs[Ev.svc].conn = Ev.conn)   \* a connection is served by its own service
          /\ Imp("C20", svcs[Ev.svc].fin = 0)
          /\ svcs' = [svcs EXCEPT ![Ev.svc].running = @ + 1]
          /\ UNCHANGED <<conns, ctxdone, accerr, loopret, hcanc>>
HCancel == /\ IsEvent("HCancel") /\ hcanc' = hcanc \cup {Ev.tag}
           /\ Imp("C20", ctxdone \/ \E c \in DOMAIN conns : conns[c].closed)
           /\ UNCHANGED <<conns, svcs, ctxdone, accerr, loopret>>
HExit == /\ IsEvent("HExit") /\ Ev.svc \in DOMAIN svcs
         /\ svcs' = [svcs EXCEPT ![Ev.svc].running = @ - 1]
         /\ UNCHANGED <<conns, ctxdone, accerr, loopret, hcanc>>

PeerClose == /\ IsEvent("PeerClose") /\ Ev.ch \in DOMAIN conns
             /\ conns' = [conns EXCEPT ![Ev.ch].peerClosed = IF @ = "no" THEN "closed" ELSE @]    \* the first of the two is what Recv reports
             /\ UNCHANGED <<svcs, ctxdone, accerr, loopret, hcanc>>
ConnFail == /\ IsEvent("ConnFail") /\ Ev.ch \in DOMAIN conns     \* the harness makes the connection's Recv fail
            /\ conns' = [conns EXCEPT ![Ev.ch].peerClosed = IF @ = "no" THEN "failed" ELSE @]
            /\ UNCHANGED <<svcs, ctxdone, accerr, loopret, hcanc>>
ChClose == /\ IsEvent("ChClose")
           /\ IF Ev.ch \in DOMAIN conns
              THEN /\ Imp("C10", ~conns[Ev.ch].closed)
                   /\ conns' = [conns EXCEPT ![Ev.ch].closed = TRUE]
              ELSE UNCHANGED conns
           /\ UNCHANGED <<svcs, ctxdone, accerr, loopret, hcanc>>

Finish ==
  /\ IsEvent("Finish") /\ Ev.svc \in DOMAIN svcs
  /\ LET s == svcs[Ev.svc] IN
     /\ Imp("C20", s.fin = 0)                                  \* exactly once
     /\ Imp("C20", s.asg = "ok")                               \* never for a service whose Assigner failed
     /\ Imp("C20", Ev.asg = Ev.svc)                            \* with the assigner that very service returned
     /\ Imp("C20", s.conn # "" /\ conns[s.conn].closed /\ s.running = 0)   \* after its server has fully exited
     \* that server's own exit status: exactly one of stopped / closed / error, and one whose cause has occurred
     /\ Imp("C20", Cardinality({x \in {"stopped", "closed", "err"} :
                        (x = "stopped" /\ Ev.stopped) \/ (x = "closed" /\ Ev.closed) \/ (x = "err" /\ Ev.err # "nil")}) = 1)
     /\ Imp("C20", Ev.stopped => ctxdone)
     /\ Imp("C20", (Ev.closed /\ s.conn # "") => conns[s.conn].peerClosed = "closed")
     /\ Imp("C20", (Ev.err # "nil" /\ s.conn # "") => conns[s.conn].peerClosed = "failed")
  /\ svcs' = [svcs EXCEPT ![Ev.svc].fin = @ + 1]
  /\ UNCHANGED <<conns, ctxdone, accerr, loopret, hcanc>>

Settled == /\ \A s \in DOMAIN svcs : (svcs[s].asg = "ok" => svcs[s].fin = 1) /\ svcs[s].asg # "-"
           /\ Cardinality(DOMAIN svcs) = Cardinality(DOMAIN conns)
           /\ \A c \in DOMAIN conns : conns[c].closed               \* failed ones are closed, not left dangling

LoopRet == /\ IsEvent("LoopRet")
           /\ Imp("C20", loopret = "none" /\ accerr # "none")
           /\ Imp("C20", Settled)                                   \* exits last
           /\ Imp("C20", (Ev.err = "nil") <=> (accerr = "closing"))
           /\ Imp("C20", Ev.err # "nil" => Ev.same)                 \* the accepter's own error
           /\ loopret' = Ev.err
           /\ UNCHANGED <<conns, svcs, ctxdone, accerr, hcanc>>

Quiescent == /\ IsEvent("Quiescent")
             /\ Imp("C20", (accerr # "none" /\ Settled) => loopret # "none")           \* nothing keeps Loop from returning
             /\ Imp("C20", ctxdone => \A s \in DOMAIN svcs : svcs[s].conn # "" => conns[svcs[s].conn].closed)  \* ctx end stops every running server
             /\ UNCHANGED <<conns, svcs, ctxdone, accerr, loopret, hcanc>>
Final == /\ IsEvent("Final")
         /\ Imp("C20", loopret # "none" /\ Settled)
         /\ UNCHANGED <<conns, svcs, ctxdone, accerr, loopret, hcanc>>
Other == /\ l <= Len(Trace) /\ Ev.ev \in {"SB", "SE", "RB", "RE", "CB", "CE", "Send", "Recv", "RecvErr", "Teardown", "Start", "AcceptB", "BufferReused"}
         /\ l' = l + 1 /\ UNCHANGED <<conns, svcs, ctxdone, accerr, loopret, hcanc>>
Terminal == /\ l <= Len(Trace) /\ Ev.ev \in {"Crash", "Deadlock", "Leak"} /\ "C20" \notin Enforce
            /\ l' = l + 1 /\ UNCHANGED <<conns, svcs, ctxdone, accerr, loopret, hcanc>>
Next == Reset \/ AcceptRet \/ AcceptErr \/ CtxCancel \/ NewService \/ AssignerRet \/ ServerUp \/ HStart \/ HCancel \/ HExit
        \/ PeerClose \/ ConnFail \/ ChClose \/ Finish \/ LoopRet \/ Quiescent \/ Final \/ Other \/ Terminal
Spec == Init /\ [][Next]_vars
ASSUME TLCSet(1, 0)
Track == TLCSet(1, IF TLCGet(1) < l THEN l ELSE TLCGet(1))
Accepted == IF TLCGet(1) = Len(Trace) + 1 THEN TRUE
            ELSE /\ PrintT(<<"REJECTED_AT", TLCGet(1)>>)
                 /\ PrintT(<<"REJECTED_EVENT", ToJson(Trace[TLCGet(1)])>>)
                 /\ FALSE
================================================================================
