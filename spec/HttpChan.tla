--------------------------------- MODULE HttpChan ---------------------------------
(***************************************************************************)
(* jhttp.Channel as the code runs it (C19 c): every Send starts a          *)
(* goroutine that performs the HTTP round trip; a 204 acknowledgement is   *)
(* closed at once, every other outcome is handed to Recv through an        *)
(* unbuffered channel or drained by Close, which waits for all of them.    *)
(* Resources: every response body that was opened is closed exactly once,  *)
(* no goroutine survives Close, Recv after Close reports EOF and Send      *)
(* after Close fails without issuing a request.                            *)
(***************************************************************************)
EXTENDS Naturals, Sequences, FiniteSets, TLC
CONSTANTS MaxSend, Fixed11      \* Fixed11 = FALSE re-creates finding F11 (drained responses keep their bodies open)

VARIABLES g,        \* send goroutines: Seq of [kind: "call"|"note"|"fail"|"bad", st: "do"|"deliver"|"done"]  ("bad": a response whose status is neither 200 nor 204)
          nopen, nclosed,   \* response bodies opened / closed
          cli,      \* "set" | "nil"  (Channel.cli)
          closepc,  \* "none" | "drain" | "ret"
          recvpc,   \* "idle" | "wait"  (a Recv call in progress)
          nrecv,    \* Recv calls that returned a record or an HTTP error
          neof,     \* Recv calls that returned io.EOF
          refused   \* Sends refused after Close
vars == <<g, nopen, nclosed, cli, closepc, recvpc, nrecv, neof, refused>>

Init == g = <<>> /\ nopen = 0 /\ nclosed = 0 /\ cli = "set" /\ closepc = "none" /\ recvpc = "idle" /\ nrecv = 0 /\ neof = 0 /\ refused = 0

Kinds == {"call", "note", "fail", "bad"}
HasBody(k) == k \in {"call", "bad"}      \* a response with a body that somebody has to close
Send(k) == /\ Len(g) + refused < MaxSend
           /\ IF cli = "nil" THEN refused' = refused + 1 /\ UNCHANGED g          \* fails without issuing a request
              ELSE g' = Append(g, [kind |-> k, st |-> "do"]) /\ UNCHANGED refused
           /\ UNCHANGED <<nopen, nclosed, cli, closepc, recvpc, nrecv, neof>>

\* the HTTP client's Do returns for goroutine i
DoRet(i) == /\ i \in 1..Len(g) /\ g[i].st = "do"
            /\ IF g[i].kind = "note"
               THEN /\ nopen' = nopen + 1 /\ nclosed' = nclosed + 1                \* 204: closed at once, nothing delivered
                    /\ g' = [g EXCEPT ![i].st = "done"]
               ELSE /\ nopen' = IF HasBody(g[i].kind) THEN nopen + 1 ELSE nopen
                    /\ nclosed' = nclosed
                    /\ g' = [g EXCEPT ![i].st = "deliver"]                         \* blocks on c.rsp <- ...
            /\ UNCHANGED <<cli, closepc, recvpc, nrecv, neof, refused>>

RecvStart == /\ recvpc = "idle" /\ nrecv + neof <= MaxSend /\ recvpc' = "wait"     \* (bounded number of Recv calls)
             /\ UNCHANGED <<g, nopen, nclosed, cli, closepc, nrecv, neof, refused>>
\* the rendezvous: Recv takes the item of SOME delivering goroutine, reads and closes its body
RecvTake(i) == /\ recvpc = "wait" /\ i \in 1..Len(g) /\ g[i].st = "deliver"
               /\ g' = [g EXCEPT ![i].st = "done"]
               /\ nclosed' = IF HasBody(g[i].kind) THEN nclosed + 1 ELSE nclosed      \* also when Recv reports the bad status as an error
               /\ nrecv' = nrecv + 1 /\ recvpc' = "idle"
               /\ UNCHANGED <<nopen, cli, closepc, neof, refused>>
\* after Close has drained everything the response channel is closed: Recv reports EOF
RecvEOF == /\ recvpc = "wait" /\ closepc = "ret"
           /\ neof' = neof + 1 /\ recvpc' = "idle"
           /\ UNCHANGED <<g, nopen, nclosed, cli, closepc, nrecv, refused>>

CloseStart == /\ closepc = "none" /\ closepc' = "drain" /\ cli' = "nil"
              /\ UNCHANGED <<g, nopen, nclosed, recvpc, nrecv, neof, refused>>
\* the drain loop competes with a pending Recv for delivering goroutines
Drain(i) == /\ closepc = "drain" /\ i \in 1..Len(g) /\ g[i].st = "deliver"
            /\ g' = [g EXCEPT ![i].st = "done"]
            /\ nclosed' = IF HasBody(g[i].kind) /\ Fixed11 THEN nclosed + 1 ELSE nclosed
            /\ UNCHANGED <<nopen, cli, closepc, recvpc, nrecv, neof, refused>>
CloseRet == /\ closepc = "drain" /\ \A i \in 1..Len(g) : g[i].st = "done"
            /\ closepc' = "ret"
            /\ UNCHANGED <<g, nopen, nclosed, cli, recvpc, nrecv, neof, refused>>

GSpace == 1..MaxSend
Next == \/ \E k \in Kinds : Send(k)
        \/ \E i \in GSpace : DoRet(i)
        \/ RecvStart
        \/ \E i \in GSpace : RecvTake(i)
        \/ RecvEOF
        \/ CloseStart
        \/ \E i \in GSpace : Drain(i)
        \/ CloseRet
Spec == Init /\ [][Next]_vars

BodiesClosedAtRest == closepc = "ret" => nopen = nclosed
NoGoroutineAfterClose == closepc = "ret" => \A i \in 1..Len(g) : g[i].st = "done"
NeverOverClosed == nclosed <= nopen
EOFOnlyAfterClose == neof > 0 => closepc = "ret"
================================================================================
