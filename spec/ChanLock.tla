-------------------------------- MODULE ChanLock --------------------------------
(***************************************************************************)
(* Design-level model for C10: every site of the library that touches the  *)
(* channel (server: deliver, pushReq, pushErrorLocked, stopLocked;         *)
(* client: send, callback reply, stopLocked; plus the single reader) is a  *)
(* process; lock / operation-begin / operation-end / unlock are separate   *)
(* steps so that TLC explores every overlap.  Sites take the owner's mutex *)
(* around the channel operation iff Locked[site] (all TRUE at the pinned   *)
(* commit; a switch set to FALSE is the "send moved outside the lock"      *)
(* class of change and must violate the discipline invariants).            *)
(***************************************************************************)
EXTENDS Naturals, FiniteSets
CONSTANTS Senders,   \* processes that call Send
          Closers,   \* processes that call Close (through stopLocked)
          Locked     \* process -> BOOLEAN: does it hold the mutex across the channel operation?
VARIABLES pc, mu, sending, closing, closes, chOpen
vars == <<pc, mu, sending, closing, closes, chOpen>>
Procs == Senders \cup Closers
Init == /\ pc = [p \in Procs |-> "idle"] /\ mu = "free" /\ sending = 0 /\ closing = 0 /\ closes = 0 /\ chOpen = TRUE
Lock(p)   == /\ pc[p] = "idle" /\ (Locked[p] => mu = "free")
             /\ mu' = (IF Locked[p] THEN p ELSE mu)
             /\ pc' = [pc EXCEPT ![p] = "locked"]
             /\ UNCHANGED <<sending, closing, closes, chOpen>>
Begin(p)  == /\ pc[p] = "locked"
             /\ (IF p \in Senders
                 THEN (IF chOpen THEN sending' = sending + 1 /\ pc' = [pc EXCEPT ![p] = "inop"] /\ UNCHANGED <<closing, closes, chOpen>>
                       ELSE pc' = [pc EXCEPT ![p] = "after"] /\ UNCHANGED <<sending, closing, closes, chOpen>>)   \* s.ch == nil: nothing sent
                 ELSE (IF chOpen THEN closing' = closing + 1 /\ closes' = closes + 1 /\ chOpen' = FALSE /\ pc' = [pc EXCEPT ![p] = "inop"] /\ UNCHANGED sending
                       ELSE pc' = [pc EXCEPT ![p] = "after"] /\ UNCHANGED <<sending, closing, closes, chOpen>>))  \* stopLocked: nothing is running
             /\ UNCHANGED mu
End(p)    == /\ pc[p] = "inop"
             /\ (IF p \in Senders THEN sending' = sending - 1 /\ UNCHANGED closing ELSE closing' = closing - 1 /\ UNCHANGED sending)
             /\ pc' = [pc EXCEPT ![p] = "after"] /\ UNCHANGED <<mu, closes, chOpen>>
Unlock(p) == /\ pc[p] = "after" /\ mu' = (IF mu = p THEN "free" ELSE mu) /\ pc' = [pc EXCEPT ![p] = "done"]
             /\ UNCHANGED <<sending, closing, closes, chOpen>>
Again(p)  == /\ pc[p] = "done" /\ p \in Senders /\ pc' = [pc EXCEPT ![p] = "idle"] /\ UNCHANGED <<mu, sending, closing, closes, chOpen>>
Next == \E p \in Procs : Lock(p) \/ Begin(p) \/ End(p) \/ Unlock(p) \/ Again(p)
Spec == Init /\ [][Next]_vars
OneSender      == sending <= 1
NoSendDuringClose == ~(sending > 0 /\ closing > 0)
CloseOnce      == closes <= 1
================================================================================
