----------------------------- MODULE ClientContract -----------------------------
(***************************************************************************)
(* The client properties C04 and C05 over observable events: operation     *)
(* brackets (OpB/OpE with results), the client's channel (Send / Recv /    *)
(* RecvErr / ChClose), context ends, Close brackets, the OnCancel/OnStop/  *)
(* OnNotify/OnCallback hooks, sound quiescence points.  Judge for traces   *)
(* recorded from the real jrpc2.Client.  Guards are tagged per property.   *)
(***************************************************************************)
EXTENDS Integers, Sequences, FiniteSets, TLC, Json, IOUtils

CONSTANTS Enforce
Trace == ndJsonDeserialize(IOEnv.TRACE)

VARIABLES l,
  ops,      \* op -> [kind, specs (Seq of [note, tag]), st: "open"|"done", ctxend, ctxkind]
  idof,     \* id -> [op, tag]        binding made by the Send that transmitted it
  live,     \* ids in flight (sent, op not yet ended)
  got,      \* id -> set of payloads [kind, tag, code] the peer has sent for that id
  idres,    \* id -> "reply" | "noreply"   how the request ended (set at OpE)
  stopped, pend, causes, sendBad,
  oncancel, \* id -> count
  onstop,   \* count
  cbrun,    \* callback ids whose handler is running
  closeOpen, closeDone, rdDone

vars == <<l, ops, idof, live, got, idres, stopped, pend, causes, sendBad, oncancel, onstop, cbrun, closeOpen, closeDone, rdDone>>
Imp(p, c) == (p \in Enforce) => c
EmptyFn == [x \in {} |-> 0]
Ev == Trace[l]
IsEvent(e) == l <= Len(Trace) /\ Ev.ev = e /\ l' = l + 1
RECURSIVE SeqSet(_)
SeqSet(s) == IF s = <<>> THEN {} ELSE {Head(s)} \cup SeqSet(Tail(s))

Init == /\ l = 1 /\ ops = EmptyFn /\ idof = EmptyFn /\ live = {} /\ got = EmptyFn /\ idres = EmptyFn
        /\ stopped = FALSE /\ pend = {} /\ causes = {} /\ sendBad = FALSE /\ oncancel = EmptyFn /\ onstop = 0
        /\ cbrun = {} /\ closeOpen = FALSE /\ closeDone = FALSE /\ rdDone = FALSE

Reset == /\ IsEvent("Reset")
         /\ ops' = EmptyFn /\ idof' = EmptyFn /\ live' = {} /\ got' = EmptyFn /\ idres' = EmptyFn
         /\ stopped' = FALSE /\ pend' = {} /\ causes' = {} /\ sendBad' = FALSE /\ oncancel' = EmptyFn /\ onstop' = 0
         /\ cbrun' = {} /\ closeOpen' = FALSE /\ closeDone' = FALSE /\ rdDone' = FALSE

OpB == /\ IsEvent("OpB") /\ Ev.op \notin DOMAIN ops
       /\ ops' = [o \in DOMAIN ops \cup {Ev.op} |-> IF o = Ev.op THEN [kind |-> Ev.kind, specs |-> Ev.specs, st |-> "open", ctxend |-> FALSE, ctxkind |-> "-"] ELSE ops[o]]
       /\ UNCHANGED <<idof, live, got, idres, stopped, pend, causes, sendBad, oncancel, onstop, cbrun, closeOpen, closeDone, rdDone>>

CtxEnd == /\ IsEvent("CtxEnd")
          /\ ops' = IF Ev.op \in DOMAIN ops THEN [ops EXCEPT ![Ev.op].ctxend = TRUE, ![Ev.op].ctxkind = Ev.kind] ELSE ops
          /\ UNCHANGED <<idof, live, got, idres, stopped, pend, causes, sendBad, oncancel, onstop, cbrun, closeOpen, closeDone, rdDone>>

(***************************************************************************)
(* The client transmits.                                                   *)
(***************************************************************************)
OpOfTag(t) == CHOOSE o \in DOMAIN ops : \E i \in 1..Len(ops[o].specs) : ops[o].specs[i].tag = t
KnownTag(t) == \E o \in DOMAIN ops : \E i \in 1..Len(ops[o].specs) : ops[o].specs[i].tag = t

SendReq ==   \* a request record (all items are requests issued by one operation)
  /\ IsEvent("Send")
  /\ Len(Ev.items) >= 1 /\ \A i \in 1..Len(Ev.items) : Ev.items[i].kind = "request"
  /\ Imp("C05", ~stopped)                                  \* nothing is transmitted after the stop
  /\ Imp("C10", Ev.shape \in {"object", "array"})
  /\ Imp("C13", Ev.oneline /\ \A i \in 1..Len(Ev.items) : Ev.items[i].v = "2.0")
  /\ LET its == Ev.items
         withId == {i \in 1..Len(its) : its[i].id # ""}
     IN  /\ \A i \in 1..Len(its) : KnownTag(its[i].tag) /\ ops[OpOfTag(its[i].tag)].st = "open"
         \* C04: ids are never shared by two requests in flight, nor re-used
         /\ Imp("C04", \A i \in withId : its[i].id \notin DOMAIN idof)
         /\ Imp("C04", \A i, j \in withId : i # j => its[i].id # its[j].id)
         \* notification specs carry no id, call specs do; order follows the specs
         /\ Imp("C04", LET o == OpOfTag(its[1].tag) IN
                       /\ Len(its) = Len(ops[o].specs)
                       /\ \A i \in 1..Len(its) : its[i].tag = ops[o].specs[i].tag /\ ((its[i].id = "") <=> ops[o].specs[i].note))
         \* replies the channel handed over for an id before a request with that id was transmitted: the
         \* reader delivers them either before the request is registered (dropped as unmatched) or after
         \* (matched) - Send and the registration are one critical section, delivery is another - so they
         \* may justify a result but oblige nothing
         /\ got' = [x \in DOMAIN got |-> IF x \in {its[i].id : i \in withId} THEN {[q EXCEPT !.pre = TRUE] : q \in got[x]} ELSE got[x]]
         /\ Ev.ok => /\ idof' = [x \in DOMAIN idof \cup {its[i].id : i \in withId} |->
                                 IF x \in DOMAIN idof THEN idof[x]
                                 ELSE LET i == CHOOSE j \in withId : its[j].id = x IN [op |-> OpOfTag(its[i].tag), tag |-> its[i].tag]]
                     /\ live' = live \cup {its[i].id : i \in withId}
         /\ ~Ev.ok => UNCHANGED <<idof, live>>
  /\ UNCHANGED <<ops, idres, stopped, pend, causes, sendBad, oncancel, onstop, cbrun, closeOpen, closeDone, rdDone>>

SendCbReply ==  \* the reply to a server call
  /\ IsEvent("Send")
  /\ Len(Ev.items) = 1 /\ Ev.items[1].kind \in {"result", "error"}
  /\ Imp("C05", ~stopped)
  /\ UNCHANGED <<ops, idof, live, got, idres, stopped, pend, causes, sendBad, oncancel, onstop, cbrun, closeOpen, closeDone, rdDone>>

SendOther ==  \* anything else the client emits is not a JSON-RPC message it should produce
  /\ IsEvent("Send")
  /\ ~(Len(Ev.items) >= 1 /\ \A i \in 1..Len(Ev.items) : Ev.items[i].kind = "request")
  /\ ~(Len(Ev.items) = 1 /\ Ev.items[1].kind \in {"result", "error"})
  /\ Imp("C10", FALSE) /\ Imp("C13", FALSE)
  /\ UNCHANGED <<ops, idof, live, got, idres, stopped, pend, causes, sendBad, oncancel, onstop, cbrun, closeOpen, closeDone, rdDone>>

(***************************************************************************)
(* The peer's records.                                                     *)
(***************************************************************************)
Recv ==
  /\ IsEvent("Recv")
  /\ LET its == Ev.items
         rep == {i \in 1..Len(its) : its[i].t \in {"reply", "bad"}}
         ids == {its[i].id : i \in rep}
         pay(i) == IF its[i].t = "bad" THEN [kind |-> "baderr", tag |-> "", code |-> 0, pre |-> FALSE]
                   ELSE [kind |-> IF its[i].err THEN "error" ELSE "result", tag |-> its[i].tag, code |-> IF its[i].err THEN -7 ELSE 0, pre |-> FALSE]
     IN  got' = [x \in DOMAIN got \cup ids |->
                   (IF x \in DOMAIN got THEN got[x] ELSE {}) \cup {pay(i) : i \in {j \in rep : its[j].id = x}}]
  /\ UNCHANGED <<ops, idof, live, idres, stopped, pend, causes, sendBad, oncancel, onstop, cbrun, closeOpen, closeDone, rdDone>>

RecvErr == /\ IsEvent("RecvErr") /\ pend' = pend \cup {Ev.kind} /\ rdDone' = TRUE
           /\ UNCHANGED <<ops, idof, live, got, idres, stopped, causes, sendBad, oncancel, onstop, cbrun, closeOpen, closeDone>>
Garbage == /\ IsEvent("RecvGarbage") /\ pend' = pend \cup {"decode"} /\ rdDone' = TRUE
           /\ UNCHANGED <<ops, idof, live, got, idres, stopped, causes, sendBad, oncancel, onstop, cbrun, closeOpen, closeDone>>

ChClose == /\ IsEvent("ChClose")
           /\ Imp("C10", ~stopped)
           /\ Imp("C05", ~stopped => pend # {})
           /\ stopped' = TRUE /\ causes' = IF stopped THEN causes ELSE pend
           /\ UNCHANGED <<ops, idof, live, got, idres, pend, sendBad, oncancel, onstop, cbrun, closeOpen, closeDone, rdDone>>

CloseB == /\ IsEvent("CloseB") /\ closeOpen' = TRUE /\ pend' = pend \cup {"close"}
          /\ UNCHANGED <<ops, idof, live, got, idres, stopped, causes, sendBad, oncancel, onstop, cbrun, closeDone, rdDone>>
CloseE == /\ IsEvent("CloseE")
          /\ Imp("C05", stopped /\ cbrun = {})          \* only after every callback handler has returned
          /\ Imp("C05", onstop = 1)
          /\ closeOpen' = FALSE /\ closeDone' = TRUE
          /\ UNCHANGED <<ops, idof, live, got, idres, stopped, pend, causes, sendBad, oncancel, onstop, cbrun, rdDone>>

SendHealed == /\ IsEvent("SendHealed")   \* the channel works again; sendBad stays: it records that sends may have failed
              /\ UNCHANGED <<ops, idof, live, got, idres, stopped, pend, causes, sendBad, oncancel, onstop, cbrun, closeOpen, closeDone, rdDone>>
SendFailArmed == /\ IsEvent("SendFailArmed") /\ sendBad' = TRUE
                 /\ UNCHANGED <<ops, idof, live, got, idres, stopped, pend, causes, oncancel, onstop, cbrun, closeOpen, closeDone, rdDone>>

(***************************************************************************)
(* An operation returns.                                                   *)
(***************************************************************************)
CallIds(o) == {x \in DOMAIN idof : idof[x].op = o}
\* result r is a reply the peer sent for id x
IsPeerReply(r, x) ==
  x \in DOMAIN got /\ \/ \E q \in got[x] : q.kind = r.kind /\ q.tag = r.tag /\ q.code = r.code
                      \/ (r.kind = "error" /\ r.code \in {-32600, -32700} /\ \E p \in got[x] : p.kind = "baderr")
CtxCode(o) == IF ops[o].ctxkind = "deadline" THEN -32096 ELSE -32097

\* r (for id x of op o) is justified
ResultOK(o, r, x) ==
  \/ IsPeerReply(r, x)
  \* anything that is not the peer's reply needs a reason (C04: "exactly what the peer sent for that id";
  \* C05: the context's own error only when that context ended or the client stopped)
  \/ /\ r.kind = "error" /\ r.code \in {-32097, -32096}                \* the context's own error
     /\ (ops[o].ctxend \/ stopped)
     /\ (ops[o].ctxend /\ ~stopped) => r.code = CtxCode(o)
  \/ /\ r.kind = "error" /\ r.code = -32603 /\ stopped                 \* channel failure reported as internal error

OpE ==
  /\ IsEvent("OpE") /\ Ev.op \in DOMAIN ops /\ ops[Ev.op].st = "open"
  /\ LET o == Ev.op
         mine == CallIds(o)
         ncalls == Cardinality({i \in 1..Len(ops[o].specs) : ~ops[o].specs[i].note})
     IN
     /\ \/ /\ Ev.err = ""           \* responses (Call: one; Batch: one per call spec, in spec order)
           /\ Imp("C04", Len(Ev.res) = ncalls /\ Cardinality(mine) = ncalls)
           /\ Len(Ev.res) = ncalls =>
                \A i \in 1..Len(Ev.res) :
                   LET r == Ev.res[i] IN
                   /\ Imp("C04", r.id \in mine /\ idof[r.id].tag =
                          (LET k == CHOOSE k \in 1..Len(ops[o].specs) :
                                      ~ops[o].specs[k].note /\ Cardinality({j \in 1..k : ~ops[o].specs[j].note}) = i
                           IN ops[o].specs[k].tag))
                   /\ r.id \in mine => (("C04" \in Enforce \/ "C05" \in Enforce) => ResultOK(o, r, r.id))
           /\ idres' = [x \in DOMAIN idres \cup mine |->
                          IF x \in mine THEN (IF \E i \in 1..Len(Ev.res) : Ev.res[i].id = x /\ IsPeerReply(Ev.res[i], x) THEN "reply" ELSE "noreply")
                          ELSE idres[x]]
        \/ /\ Ev.err \in {"canceled", "deadline"}       \* Call returned the context's own error
           /\ Imp("C05", ops[o].ctxend \/ stopped)
           /\ Imp("C05", (ops[o].ctxend /\ ~stopped) => Ev.err = ops[o].ctxkind)
           /\ idres' = [x \in DOMAIN idres \cup mine |-> IF x \in mine THEN "noreply" ELSE idres[x]]
        \/ /\ Ev.err = "rpcerror"                       \* Call returned an *Error: the peer's error reply (or a channel failure)
           /\ Len(Ev.res) = 1
           \* ... or the client refused the operation because it had stopped on a decoding error (its stop cause is an *Error)
           /\ (("C04" \in Enforce \/ "C05" \in Enforce) =>
                  \/ \E x \in mine : ResultOK(o, Ev.res[1], x)
                  \/ (mine = {} /\ "decode" \in pend /\ Ev.res[1].code = -32700))
           /\ idres' = [x \in DOMAIN idres \cup mine |-> IF x \in mine THEN (IF IsPeerReply(Ev.res[1], x) THEN "reply" ELSE "noreply") ELSE idres[x]]
        \/ /\ Ev.err = "error"                          \* refused / send failure / stopped: nothing of it is pending
           /\ Imp("C05", stopped \/ sendBad \/ pend # {} \/ Len(ops[o].specs) = 0)     \* (a batch of nothing is refused as well)
           /\ Imp("C05", mine = {})                     \* a failed send leaves nothing registered
           /\ idres' = idres
     /\ ops' = [ops EXCEPT ![o].st = "done"]
     /\ live' = live \ mine
  /\ UNCHANGED <<idof, got, stopped, pend, causes, sendBad, oncancel, onstop, cbrun, closeOpen, closeDone, rdDone>>

(***************************************************************************)
(* Hooks.                                                                  *)
(***************************************************************************)
OnCancel == /\ IsEvent("OnCancel")
            /\ Imp("C05", Ev.id \in DOMAIN idof /\ Ev.id \notin DOMAIN oncancel)       \* at most once, only for a sent request
            /\ Imp("C05", Ev.id \in DOMAIN idres => idres[Ev.id] = "noreply")          \* never for an answered one
            /\ oncancel' = [x \in DOMAIN oncancel \cup {Ev.id} |-> IF x = Ev.id THEN (IF x \in DOMAIN oncancel THEN oncancel[x] + 1 ELSE 1) ELSE oncancel[x]]
            /\ UNCHANGED <<ops, idof, live, got, idres, stopped, pend, causes, sendBad, onstop, cbrun, closeOpen, closeDone, rdDone>>
OnStop == /\ IsEvent("OnStop")
          /\ Imp("C05", onstop = 0 /\ stopped)
          /\ Imp("C05", Ev.cause \in causes)             \* the first cause
          /\ onstop' = onstop + 1
          /\ UNCHANGED <<ops, idof, live, got, idres, stopped, pend, causes, sendBad, oncancel, cbrun, closeOpen, closeDone, rdDone>>
\* what the OnStop hook saw when it used the client it was given: a stopped client that refuses at once
HookSaw == /\ IsEvent("HookSaw")
           /\ Imp("C05", Ev.stopped /\ Ev.refused)
           /\ UNCHANGED <<ops, idof, live, got, idres, stopped, pend, causes, sendBad, oncancel, onstop, cbrun, closeOpen, closeDone, rdDone>>
\* (aware: the handler watches its context - it returns when the context ends, whether the scenario releases it or not)
CbStart == /\ IsEvent("CbStart") /\ cbrun' = cbrun \cup {[id |-> Ev.id, aware |-> Ev.aware]}
           /\ UNCHANGED <<ops, idof, live, got, idres, stopped, pend, causes, sendBad, oncancel, onstop, closeOpen, closeDone, rdDone>>
CbExit == /\ IsEvent("CbExit") /\ cbrun' = {x \in cbrun : x.id # Ev.id}
          /\ UNCHANGED <<ops, idof, live, got, idres, stopped, pend, causes, sendBad, oncancel, onstop, closeOpen, closeDone, rdDone>>

(***************************************************************************)
(* Quiescent / Final.                                                      *)
(***************************************************************************)
HasCause(o) ==   \* something has happened that obliges the operation to return
  \/ ops[o].ctxend \/ stopped
  \/ (CallIds(o) # {} /\ \A x \in CallIds(o) : x \in DOMAIN got /\ \E q \in got[x] : ~q.pre)

Quiescent ==
  /\ IsEvent("Quiescent")
  /\ Imp("C05", \A o \in DOMAIN ops : (ops[o].st = "open" /\ HasCause(o)) => FALSE)   \* nothing blocks once a cause is present
  \* C04: an operation all of whose requests the peer has answered (after they were sent) completes - with those answers
  /\ Imp("C04", \A o \in DOMAIN ops : (ops[o].st = "open" /\ ~stopped /\ CallIds(o) # {}
                                        /\ \A x \in CallIds(o) : x \in DOMAIN got /\ \E q \in got[x] : ~q.pre) => FALSE)
  \* C05: once the client has stopped - by Close as by anything else - the context of every callback handler has ended:
  \* a handler that waits for just that is not left waiting (and Close, which waits for the handlers, not for ever)
  /\ Imp("C05", stopped => \A x \in cbrun : ~x.aware)
  \* once Recv has failed (end of stream, a closing-class error, any other error, an undecodable record) the client has stopped
  /\ Imp("C05", rdDone => stopped)
  \* (OnStop has no deadline short of Close returning: Close runs it after waiting for the reader and callbacks)
  /\ Imp("C05", (stopped /\ ~closeOpen) => onstop = 1)
  /\ UNCHANGED <<ops, idof, live, got, idres, stopped, pend, causes, sendBad, oncancel, onstop, cbrun, closeOpen, closeDone, rdDone>>

Final ==
  /\ IsEvent("Final")
  /\ Imp("C05", \A o \in DOMAIN ops : ops[o].st = "done")                      \* every operation returned
  /\ Imp("C05", Ev.pending = 0)
  /\ Imp("C05", \A x \in DOMAIN idres : (idres[x] = "noreply") <=> (x \in DOMAIN oncancel))   \* OnCancel exactly for the unanswered
  /\ Imp("C05", onstop = 1)
  /\ Imp("C10", Ev.closes = 1)
  /\ UNCHANGED <<ops, idof, live, got, idres, stopped, pend, causes, sendBad, oncancel, onstop, cbrun, closeOpen, closeDone, rdDone>>

Ignored == /\ l <= Len(Trace) /\ Ev.ev \in {"PeerClose", "Teardown", "SB", "SE", "RB", "RE", "CB", "CE", "OnNotify", "Start", "Drift", "BufferReused"}
           /\ l' = l + 1
           /\ UNCHANGED <<ops, idof, live, got, idres, stopped, pend, causes, sendBad, oncancel, onstop, cbrun, closeOpen, closeDone, rdDone>>
Terminal == /\ l <= Len(Trace) /\ Ev.ev \in {"Crash", "Deadlock", "Leak"}
            /\ Enforce \cap {"C04", "C05"} = {}
            /\ l' = l + 1
            /\ UNCHANGED <<ops, idof, live, got, idres, stopped, pend, causes, sendBad, oncancel, onstop, cbrun, closeOpen, closeDone, rdDone>>

Next == \/ Reset \/ OpB \/ CtxEnd \/ SendReq \/ SendCbReply \/ SendOther \/ Recv \/ RecvErr \/ Garbage \/ ChClose
        \/ CloseB \/ CloseE \/ SendFailArmed \/ SendHealed \/ OpE \/ OnCancel \/ OnStop \/ HookSaw \/ CbStart \/ CbExit \/ Quiescent \/ Final
        \/ Ignored \/ Terminal
Spec == Init /\ [][Next]_vars

ASSUME TLCSet(1, 0)
Track == TLCSet(1, IF TLCGet(1) < l THEN l ELSE TLCGet(1))
Accepted == IF TLCGet(1) = Len(Trace) + 1 THEN TRUE
            ELSE /\ PrintT(<<"REJECTED_AT", TLCGet(1)>>)
                 /\ PrintT(<<"REJECTED_EVENT", ToJson(Trace[TLCGet(1)])>>)
                 /\ FALSE
================================================================================
