-------------------------------- MODULE BridgeImpl --------------------------------
(***************************************************************************)
(* jhttp.Bridge as the code runs it (C18): several HTTP requests share one *)
(* jrpc2.Client; each request parses its body, answers statically invalid  *)
(* members itself, allocates fresh client ids for its calls (one critical  *)
(* section per call: allocations of concurrent requests interleave), sends *)
(* one batch, and maps the responses back to the caller's own id texts by  *)
(* position.  Handlers are held by the environment and return in any order.*)
(* SharedScratch = TRUE re-creates the class of bug in which the inbound   *)
(* ids of concurrent requests share one buffer (must violate OwnIds).      *)
(***************************************************************************)
EXTENDS Naturals, Sequences, FiniteSets, TLC
CONSTANTS Bodies,        \* h -> Seq of members [k |-> "call"|"note"|"inv", id |-> inbound id (0 = none)]
          SharedScratch

VARIABLES req,      \* h -> [pc, k (allocation counter; the HTTP status once done), cids (client ids allocated, per call in order), inb (inbound ids kept for remapping), res]
          nextID,
          scratch,  \* the shared buffer (only used when SharedScratch)
          run       \* client id -> [h, pos, st: "running"|"done"]   (handler invocations)
vars == <<req, nextID, scratch, run>>
H == DOMAIN Bodies

Calls(h) == SelectSeq(Bodies[h], LAMBDA m : m.k = "call")
Valid(h) == SelectSeq(Bodies[h], LAMBDA m : m.k # "inv")
Invalid(h) == SelectSeq(Bodies[h], LAMBDA m : m.k = "inv")
InbIds(h) == [i \in 1..Len(Calls(h)) |-> Calls(h)[i].id]

Init == /\ req = [h \in H |-> [pc |-> "idle", k |-> 0, cids |-> <<>>, inb |-> <<>>, res |-> <<>>]]
        /\ nextID = 1 /\ scratch = <<>> /\ run = [x \in {} |-> 0]

\* ServeHTTP: parse the body, remember the caller's ids of its calls (in order)
Start(h) == /\ req[h].pc = "idle"
            /\ IF SharedScratch
               THEN \* every request appends into the same backing array, from index 1
                    /\ scratch' = [i \in 1..(IF Len(scratch) > Len(InbIds(h)) THEN Len(scratch) ELSE Len(InbIds(h))) |->
                                     IF i <= Len(InbIds(h)) THEN InbIds(h)[i] ELSE scratch[i]]
                    /\ req' = [req EXCEPT ![h].pc = IF Len(Calls(h)) = 0 THEN "send" ELSE "alloc", ![h].inb = InbIds(h)]
               ELSE /\ req' = [req EXCEPT ![h].pc = IF Len(Calls(h)) = 0 THEN "send" ELSE "alloc", ![h].inb = InbIds(h)]
                    /\ UNCHANGED scratch
            /\ UNCHANGED <<nextID, run>>

\* Client.req: one id per call spec, one lock hold each
Alloc(h) == /\ req[h].pc = "alloc"
            /\ LET k2 == req[h].k + 1 IN
               req' = [req EXCEPT ![h].cids = Append(@, nextID), ![h].k = k2, ![h].pc = IF k2 = Len(Calls(h)) THEN "send" ELSE "alloc"]
            /\ nextID' = nextID + 1
            /\ UNCHANGED <<scratch, run>>

\* Client.send: the batch goes out; the server starts the handlers of its valid members
Send(h) == /\ req[h].pc = "send"
           /\ IF Len(Valid(h)) = 0
              THEN req' = [req EXCEPT ![h].pc = "reply"]                       \* nothing to send: only static errors (or nothing)
              ELSE req' = [req EXCEPT ![h].pc = IF Len(Calls(h)) = 0 THEN "reply" ELSE "wait"]
           /\ run' = [x \in DOMAIN run \cup {req[h].cids[i] : i \in 1..Len(req[h].cids)} |->
                        IF x \in DOMAIN run THEN run[x]
                        ELSE [h |-> h, pos |-> CHOOSE i \in 1..Len(req[h].cids) : req[h].cids[i] = x, st |-> "running"]]
           /\ UNCHANGED <<nextID, scratch>>

HandlerRet(x) == /\ x \in DOMAIN run /\ run[x].st = "running"
                 /\ run' = [run EXCEPT ![x].st = "done"]
                 /\ LET h == run[x].h IN
                    IF \A y \in DOMAIN run : (run[y].h = h /\ y # x) => run[y].st = "done"
                    THEN req' = [req EXCEPT ![h].pc = "reply"]                 \* the batch reply arrives; Batch returns
                    ELSE UNCHANGED req
                 /\ UNCHANGED <<nextID, scratch>>

\* serveInternal: map the responses (in spec order) back to the inbound ids by position
Reply(h) == /\ req[h].pc = "reply"
            /\ LET ids == IF SharedScratch THEN [i \in 1..Len(req[h].cids) |-> scratch[i]] ELSE req[h].inb IN
               req' = [req EXCEPT ![h].pc = "done",
                                  ![h].res = [i \in 1..Len(req[h].cids) |-> [id |-> ids[i], of |-> <<h, i>>]],
                                  \* 200 with the response objects (those of the calls and the error objects of the
                                  \* statically invalid members), 204 when there is none
                                  ![h].k = IF Len(req[h].cids) + Len(Invalid(h)) > 0 THEN 200 ELSE 204]
            /\ UNCHANGED <<nextID, scratch, run>>

IdSpace == 1..6
Next == \/ \E h \in H : Start(h)
        \/ \E h \in H : Alloc(h)
        \/ \E h \in H : Send(h)
        \/ \E x \in IdSpace : HandlerRet(x)
        \/ \E h \in H : Reply(h)
Spec == Init /\ [][Next]_vars

\* C18: each caller gets exactly the responses to its own calls, under its own ids, whatever the others use
OwnIds == \A h \in H : req[h].pc = "done" =>
             /\ Len(req[h].res) = Len(Calls(h))
             /\ \A i \in 1..Len(req[h].res) : req[h].res[i].id = Calls(h)[i].id /\ req[h].res[i].of = <<h, i>>
ClientIdsUnique == \A a, b \in H : a # b => \A i \in 1..Len(req[a].cids), j \in 1..Len(req[b].cids) : req[a].cids[i] # req[b].cids[j]
\* C18: 204 exactly for bodies that held only notifications (req[h].k holds the status once the request is done)
StatusRule == \A h \in H : req[h].pc = "done" =>
                 (req[h].k = 204 <=> \A i \in 1..Len(Bodies[h]) : Bodies[h][i].k = "note")
EachHandlerOnce == \A h \in H : req[h].pc = "done" => Cardinality({x \in DOMAIN run : run[x].h = h}) = Len(Calls(h))
====================================================================================
