-------------------------------- MODULE MCBridge --------------------------------
EXTENDS BridgeImpl
Ca(i) == [k |-> "call", id |-> i]
No == [k |-> "note", id |-> 0]
Iv(i) == [k |-> "inv", id |-> i]
\* colliding ids across callers (1 vs 1), different ids at the same position (1 vs 2), notes and invalid members
B3 == [h1 |-> <<Ca(1)>>, h2 |-> <<Ca(1), No, Ca(2)>>, h3 |-> <<Ca(2), Iv(3), Ca(1)>>]
\* bodies without any call: notifications and statically invalid members in every mixture (status 204 vs 200)
B4 == [h1 |-> <<No, Iv(1)>>, h2 |-> <<Iv(2)>>, h3 |-> <<No>>, h4 |-> <<Iv(0), No, Iv(3)>>, h5 |-> <<No, No, Ca(1)>>]
B2 == [h1 |-> <<Ca(1), Ca(2)>>, h2 |-> <<Ca(2), Ca(1)>>]
================================================================================
