----------------------------- MODULE ChanDiscipline -----------------------------
(***************************************************************************)
(* C10: the contract of channel.Channel as the library must honour it:     *)
(* per channel at most one Send in progress, at most one Recv in progress, *)
(* no Close while a Send is in progress, exactly one Close per Start /     *)
(* NewClient, and every record handed to Send is one complete JSON-RPC     *)
(* message (an object or a non-empty array of objects).                    *)
(* A monitor automaton over the begin/end events of the instrumented       *)
(* channel; also usable as a standalone spec (MCChan.tla checks it against *)
(* a lock-based sender model).                                             *)
(***************************************************************************)
EXTENDS Integers, Sequences, FiniteSets, TLC, Json, IOUtils
CONSTANTS Enforce
Trace == ndJsonDeserialize(IOEnv.TRACE)
VARIABLES l, st   \* st: channel name -> [sending, receiving, closing, closes]
vars == <<l, st>>
Imp(p, c) == (p \in Enforce) => c
Ev == Trace[l]
IsEvent(e) == l <= Len(Trace) /\ Ev.ev = e /\ l' = l + 1
Fresh == [sending |-> 0, receiving |-> 0, closing |-> 0, closes |-> 0]
Ch(c) == IF c \in DOMAIN st THEN st[c] ELSE Fresh
Upd(c, r) == st' = [x \in DOMAIN st \cup {c} |-> IF x = c THEN r ELSE st[x]]

Init == l = 1 /\ st = [x \in {} |-> Fresh]
Reset == IsEvent("Reset") /\ st' = [x \in {} |-> Fresh]

SB == /\ IsEvent("SB")
      /\ Imp("C10", Ch(Ev.ch).sending = 0)          \* never two Sends at once
      /\ Imp("C10", Ch(Ev.ch).closing = 0)          \* never a Send overlapping Close
      /\ Upd(Ev.ch, [Ch(Ev.ch) EXCEPT !.sending = @ + 1])
SE == IsEvent("SE") /\ Upd(Ev.ch, [Ch(Ev.ch) EXCEPT !.sending = @ - 1])
RB == /\ IsEvent("RB")
      /\ Imp("C10", Ch(Ev.ch).receiving = 0)        \* never two Recvs at once
      /\ Upd(Ev.ch, [Ch(Ev.ch) EXCEPT !.receiving = @ + 1])
RE == IsEvent("RE") /\ Upd(Ev.ch, [Ch(Ev.ch) EXCEPT !.receiving = @ - 1])
CB == /\ IsEvent("CB")
      /\ Imp("C10", Ch(Ev.ch).sending = 0)          \* never a Close overlapping a Send
      /\ Imp("C10", Ch(Ev.ch).closes = 0)           \* Close exactly once ...
      /\ Upd(Ev.ch, [Ch(Ev.ch) EXCEPT !.closing = @ + 1, !.closes = @ + 1])
CE == IsEvent("CE") /\ Upd(Ev.ch, [Ch(Ev.ch) EXCEPT !.closing = @ - 1])

\* every record passed to Send is a whole JSON-RPC message
WholeMessage(e) ==
  /\ e.shape \in {"object", "array"}
  /\ Len(e.items) >= 1
  /\ \A i \in 1..Len(e.items) : e.items[i].kind \in {"request", "result", "error"} /\ e.items[i].v = "2.0"
Send == /\ IsEvent("Send")
        /\ Imp("C10", WholeMessage(Ev))
        /\ Imp("C13", Ev.oneline)
        /\ UNCHANGED st

\* ... per Start / NewClient: at the end of a scenario every started channel was closed exactly once
Final == /\ IsEvent("Final")
         /\ Imp("C10", \A c \in DOMAIN st : st[c].closes = 1 /\ st[c].sending = 0)
         /\ UNCHANGED st

\* the bytes of a message stay what they were when they were passed to Send (a channel may hand them on uncopied)
BufferReused == /\ l <= Len(Trace) /\ Ev.ev = "BufferReused" /\ "C10" \notin Enforce /\ "C13" \notin Enforce
                /\ l' = l + 1 /\ UNCHANGED st
Other == /\ l <= Len(Trace) /\ Ev.ev \notin {"Reset", "SB", "SE", "RB", "RE", "CB", "CE", "Send", "Final", "Crash", "Deadlock", "Leak", "BufferReused"}
         /\ l' = l + 1 /\ UNCHANGED st
Terminal == /\ l <= Len(Trace) /\ Ev.ev \in {"Crash", "Deadlock", "Leak"} /\ "C10" \notin Enforce
            /\ l' = l + 1 /\ UNCHANGED st

Next == Reset \/ SB \/ SE \/ RB \/ RE \/ CB \/ CE \/ Send \/ Final \/ Other \/ Terminal \/ BufferReused
Spec == Init /\ [][Next]_vars
ASSUME TLCSet(1, 0)
Track == TLCSet(1, IF TLCGet(1) < l THEN l ELSE TLCGet(1))
Accepted == IF TLCGet(1) = Len(Trace) + 1 THEN TRUE
            ELSE /\ PrintT(<<"REJECTED_AT", TLCGet(1)>>)
                 /\ PrintT(<<"REJECTED_EVENT", ToJson(Trace[TLCGet(1)])>>)
                 /\ FALSE
================================================================================
