-------------------------------- MODULE MCChan --------------------------------
EXTENDS ChanLock
AllLocked == [p \in Senders \cup Closers |-> TRUE]
DirErrUnlocked == [p \in Senders \cup Closers |-> p # "direrr"]
================================================================================
