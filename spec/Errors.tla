--------------------------------- MODULE Errors ---------------------------------
(***************************************************************************)
(* Reference functions for C14: how an error returned by a handler is      *)
(* classified (ErrorCode), put on the wire (ToWire) and surfaces at the    *)
(* caller (FromWire), over error TREES built from the constructors users   *)
(* have.  A tree is a record [k, c, sub]:                                  *)
(*   leaves   "J" *jrpc2.Error(code c)   "K" Code(c).Err()                 *)
(*            "V" custom ErrCoder, value receiver   "P" pointer receiver   *)
(*            "Can" context.Canceled  "Dl" context.DeadlineExceeded        *)
(*            "Plain" errors.New                                           *)
(*   wrappers "W" fmt.Errorf("...%w", sub[1])                              *)
(*            "CW" custom ErrCoder with code c whose Unwrap is sub[1]      *)
(*            "Join" errors.Join(sub[1], sub[2])                           *)
(***************************************************************************)
EXTENDS Integers, Sequences, FiniteSets, TLC, Json, IOUtils
CONSTANT Depth

\* (-32099 is NoError: an error that carries it is an error all the same)
Codes == <<5, -32601, -32097, 7001, -32099>>
NoError == -32099  SystemError == -32098  Cancelled == -32097  DeadlineExceeded == -32096  InternalError == -32603

Leaf(k, c) == [k |-> k, c |-> c, sub |-> <<>>]
\* (no "K" leaf for NoError: Code.Err() of it is nil, not an error)
LeavesAll == [i \in 1..(4 * Len(Codes) + 3) |->
             IF i <= 4 * Len(Codes)
             THEN Leaf(<<"J", "K", "V", "P">>[((i - 1) \div Len(Codes)) + 1], Codes[((i - 1) % Len(Codes)) + 1])
             ELSE Leaf(<<"Can", "Dl", "Plain">>[i - 4 * Len(Codes)], 0)]
Leaves == SelectSeq(LeavesAll, LAMBDA e : ~(e.k = "K" /\ e.c = NoError))

\* trees of height <= 1 over a sequence of smaller trees T
Grow(T) == [i \in 1..Len(T) |-> [k |-> "W", c |-> 0, sub |-> <<T[i]>>]]
           \o [i \in 1..(Len(T) * Len(Codes)) |-> [k |-> "CW", c |-> Codes[((i - 1) % Len(Codes)) + 1], sub |-> <<T[((i - 1) \div Len(Codes)) + 1]>>]]
JoinAll(A, B) == [i \in 1..(Len(A) * Len(B)) |-> [k |-> "Join", c |-> 0, sub |-> <<A[((i - 1) \div Len(B)) + 1], B[((i - 1) % Len(B)) + 1]>>]]

D1 == Leaves
D2 == Grow(D1) \o JoinAll(D1, D1)
D3 == Grow(D2) \o JoinAll(D1, D2) \o JoinAll(D2, D1)
Trees == IF Depth = 1 THEN D1 ELSE IF Depth = 2 THEN D1 \o D2 ELSE D1 \o D2 \o D3

IsCoder(e) == e.k \in {"J", "K", "V", "P", "CW"}
\* errors.As(err, &ErrCoder): the node itself, then its children depth-first in order; 0 if none (codes are never 0 here... use a pair)
RECURSIVE FirstCoder(_)
FirstCoder(e) == IF IsCoder(e) THEN <<TRUE, e.c>>
                 ELSE IF e.sub = <<>> THEN <<FALSE, 0>>
                 ELSE LET a == FirstCoder(e.sub[1]) IN
                      IF a[1] \/ Len(e.sub) = 1 THEN a ELSE FirstCoder(e.sub[2])
RECURSIVE Has(_, _)
Has(e, k) == e.k = k \/ \E i \in 1..Len(e.sub) : Has(e.sub[i], k)

ErrorCode(e) == LET f == FirstCoder(e) IN
                IF f[1] THEN f[2]
                ELSE IF Has(e, "Can") THEN Cancelled
                ELSE IF Has(e, "Dl") THEN DeadlineExceeded
                ELSE SystemError

\* what the server puts on the wire: a concrete *Error travels unchanged, anything else by its code and text
ToWire(e) == IF e.k = "J" THEN [code |-> e.c, exact |-> TRUE]
             ELSE [code |-> IF ErrorCode(e) = NoError THEN InternalError ELSE ErrorCode(e), exact |-> FALSE]
\* what the caller gets
FromWire(w) == IF w.code = Cancelled THEN Leaf("Can", 0)
               ELSE IF w.code = DeadlineExceeded THEN Leaf("Dl", 0)
               ELSE Leaf("J", w.code)

\* the property, on the reference itself (evaluated by TLC over every tree)
\* (one documented exception: an error that is not an *Error and whose coder says NoError travels as InternalError)
ASSUME \A i \in 1..Len(Trees) : ErrorCode(FromWire(ToWire(Trees[i]))) = ErrorCode(Trees[i])
                                  \/ (Trees[i].k # "J" /\ ErrorCode(Trees[i]) = NoError /\ ToWire(Trees[i]).code = InternalError)
ASSUME \A i \in 1..Len(Trees) : ErrorCode(Trees[i]) = Cancelled => FromWire(ToWire(Trees[i])).k = "Can"

Cell(e) == LET w == ToWire(e)  f == FromWire(w) IN
           [tree |-> e, code |-> ErrorCode(e), wire |-> w.code, exact |-> w.exact,
            sentinel |-> IF f.k = "Can" THEN "canceled" ELSE IF f.k = "Dl" THEN "deadline" ELSE "none"]

ExportIt == JsonSerialize(IOEnv.OUT, [cells |-> [i \in 1..Len(Trees) |-> Cell(Trees[i])], ncells |-> Len(Trees),
              codes |-> <<0, 1, -1, 5, 7001, -32700, -32600, -32601, -32602, -32603, -32098, -32097, -32096, -32000, -32768, 2147483647, (-2147483647) - 1>>])
================================================================================
