// Package clifam drives a real jrpc2.Client against a scripted raw peer through
// scenarios generated from the TLA+ model ClientImpl (or hand-written ones)
// inside a testing/synctest bubble and records the observable events.
package clifam

import (
	"bytes"
	"context"
	"encoding/json"
	"errors"
	"fmt"
	"io"
	"os"
	"runtime"
	"sort"
	"strconv"
	"strings"
	"sync"
	"testing"
	"testing/synctest"
	"time"

	"github.com/creachadair/jrpc2"
	"github.com/creachadair/jrpc2/channel"
	"verif/harness/vh"
)

// An Item is one member of a record the scripted peer sends.
type Item struct {
	T   string `json:"t"` // reply | bad | note | call
	ID  int    `json:"id"`
	Err bool   `json:"err"`
}

// A Step is one action of a scenario.
type Step struct {
	A       string `json:"a"`
	Op      string `json:"op,omitempty"`
	Kind    string `json:"kind,omitempty"` // op: call | batch | notify | callresult
	Specs   []bool `json:"specs,omitempty"`
	Site    string `json:"site,omitempty"`
	M       int    `json:"m,omitempty"`
	ID      string `json:"id,omitempty"`
	Proj    *Proj  `json:"proj,omitempty"` // the model's state after this step, as far as VerifSnapshot shows it
	Out     string `json:"out,omitempty"`  // cbret: outcome of the callback handler (ok | err:7 | err:plain | err:baddata | badresult | panic)
	Items   []Item `json:"items,omitempty"`
	Arr     bool   `json:"arr,omitempty"`
	CtxKind string `json:"ctxkind,omitempty"` // "" (cancel) | deadline | cancelcause | deadlinecause | childofcause
	Soft    bool   `json:"soft,omitempty"`
	N       int    `json:"n,omitempty"`
}

// Opts are the options of a scenario.
type Opts struct {
	RecvUnblocks bool `json:"recvUnblocks"`
	Callback     bool `json:"callback"`
	HookTouch    bool `json:"hooktouch"` // the OnStop hook uses the client it is given (IsStopped, Notify)
	CbAware      bool `json:"cbaware"`   // callback handlers watch their context: they return when it ends, released or not
	Free         bool `json:"free"`
}

// A Scenario is a sequence of steps.
type Scenario struct {
	Name  string `json:"name"`
	Seed  uint64 `json:"seed"`
	Opts  Opts   `json:"opts"`
	Steps []Step `json:"steps"`
}

type runner struct {
	t     *testing.T
	sc    *Scenario
	rec   *vh.Recorder
	sched *vh.Sched
	cli   *jrpc2.Client
	ch    *vh.VChan

	mu      sync.Mutex
	opGid   map[string]int64
	opCtx   map[string]context.CancelFunc
	opDl    map[string]time.Time
	nops    int
	ncb     int
	nrec    int
	recs    [][]byte
	cbGate  map[string][]chan struct{} // handlers currently blocked, per callback id
	cbOut   map[string]string          // what the next handler released for a callback id returns
	closed  bool
	closeCh chan struct{}
	stats   map[string]int
}

func goid() int64 {
	var buf [64]byte
	b := buf[:runtime.Stack(buf[:], false)]
	s := strings.TrimPrefix(string(b), "goroutine ")
	i := strings.IndexByte(s, ' ')
	if i < 0 {
		return -1
	}
	v, _ := strconv.ParseInt(s[:i], 10, 64)
	return v
}

func classifyErr(err error) string {
	switch {
	case err == nil:
		return ""
	case errors.Is(err, context.Canceled):
		return "canceled"
	case errors.Is(err, context.DeadlineExceeded):
		return "deadline"
	}
	var je *jrpc2.Error
	if errors.As(err, &je) {
		return "rpcerror"
	}
	return "error"
}

func rspItem(rsp *jrpc2.Response) map[string]any {
	it := map[string]any{"id": rsp.ID(), "kind": "result", "tag": "", "code": 0}
	if e := rsp.Error(); e != nil {
		it["kind"] = "error"
		it["code"] = int(e.Code)
		it["tag"] = vh.TagOf(json.RawMessage(strconv.Quote(e.Message)))
		if !strings.Contains(e.Message, "tag=") {
			it["tag"] = ""
		}
	} else {
		var s string
		if rsp.UnmarshalResult(&s) == nil {
			it["tag"] = s
		}
	}
	return it
}

// Proj is the projection of a ClientImpl state on what Client.VerifSnapshot exposes.
type Proj struct {
	NextID  int64    `json:"nextid"`
	Pending []string `json:"pending"`
	Stopped bool     `json:"stopped"`
}

type ctxKey struct{}

func (r *runner) startOp(st Step) {
	r.nops++
	op := st.Op
	specs := st.Specs
	if len(specs) == 0 && st.Kind != "emptybatch" && st.Kind != "nilbatch" {
		specs = []bool{st.Kind == "notify"}
	}
	var abs []any
	for i, n := range specs {
		abs = append(abs, map[string]any{"note": n, "tag": fmt.Sprintf("%s.%d", op, i+1)})
	}
	var ctx context.Context
	var cancel context.CancelFunc
	// The kinds of context an operation may be given.  Whatever cause a context carries (context.WithCancelCause and
	// friends), the operation reports the context's own error: context.Canceled or context.DeadlineExceeded.
	cause := errors.New("harness: private cause of op " + op)
	switch st.CtxKind {
	case "deadline":
		d := time.Duration(r.nops) * time.Hour
		ctx, cancel = context.WithTimeout(context.Background(), d)
		r.opDl[op] = time.Now().Add(d)
	case "deadlinecause":
		d := time.Duration(r.nops) * time.Hour
		ctx, cancel = context.WithTimeoutCause(context.Background(), d, cause)
		r.opDl[op] = time.Now().Add(d)
	case "cancelcause":
		c2, cc := context.WithCancelCause(context.Background())
		ctx, cancel = c2, func() { cc(cause) }
	case "childofcause": // a plain child of a context that is cancelled with a cause
		c2, cc := context.WithCancelCause(context.Background())
		c3, c3cancel := context.WithCancel(context.WithValue(c2, ctxKey{}, op))
		ctx, cancel = c3, func() { cc(cause); _ = c3cancel }
	default:
		ctx, cancel = context.WithCancel(context.Background())
	}
	r.opCtx[op] = cancel
	started := make(chan struct{})
	go func() {
		r.mu.Lock()
		r.opGid[op] = goid()
		r.mu.Unlock()
		if abs == nil {
			abs = []any{}
		}
		r.rec.Log("OpB", "op", op, "kind", st.Kind, "specs", abs)
		close(started)
		var res []any
		var errc string
		tag := func(i int) map[string]string { return map[string]string{"tag": fmt.Sprintf("%s.%d", op, i+1)} }
		switch st.Kind {
		case "call":
			rsp, err := r.cli.Call(ctx, "m", tag(0))
			errc = classifyErr(err)
			if err == nil {
				res = append(res, rspItem(rsp))
			} else if errc == "rpcerror" {
				var je *jrpc2.Error
				errors.As(err, &je)
				t := ""
				if strings.Contains(je.Message, "tag=") {
					t = vh.TagOf(json.RawMessage(strconv.Quote(je.Message)))
				}
				res = append(res, map[string]any{"id": "", "kind": "error", "code": int(je.Code), "tag": t})
			}
		case "callresult":
			var out string
			err := r.cli.CallResult(ctx, "m", tag(0), &out)
			errc = classifyErr(err)
			if err == nil {
				// CallResult hides the id: report the id bound to this op's tag (C04 checks it through Call/Batch)
				res = append(res, map[string]any{"id": r.idOfTag(fmt.Sprintf("%s.1", op)), "kind": "result", "tag": out, "code": 0})
			} else if errc == "rpcerror" {
				var je *jrpc2.Error
				errors.As(err, &je)
				t := ""
				if strings.Contains(je.Message, "tag=") {
					t = vh.TagOf(json.RawMessage(strconv.Quote(je.Message)))
				}
				res = append(res, map[string]any{"id": "", "kind": "error", "code": int(je.Code), "tag": t})
			}
		case "notify":
			errc = classifyErr(r.cli.Notify(ctx, "m", tag(0)))
			if errc == "rpcerror" {
				errc = "error"
			}
		case "emptybatch", "nilbatch": // a batch of nothing: refused, nothing goes to the channel
			sp := []jrpc2.Spec{}
			if st.Kind == "nilbatch" {
				sp = nil
			}
			rsps, err := r.cli.Batch(ctx, sp)
			errc = classifyErr(err)
			if errc == "rpcerror" {
				errc = "error"
			}
			for _, rsp := range rsps {
				res = append(res, rspItem(rsp))
			}
		case "batch":
			var sp []jrpc2.Spec
			for i, n := range specs {
				sp = append(sp, jrpc2.Spec{Method: "m", Params: tag(i), Notify: n})
			}
			rsps, err := r.cli.Batch(ctx, sp)
			errc = classifyErr(err)
			if errc == "rpcerror" {
				errc = "error"
			}
			for _, rsp := range rsps {
				res = append(res, rspItem(rsp))
			}
		}
		if res == nil {
			res = []any{}
		}
		r.rec.Log("OpE", "op", op, "err", errc, "res", res)
	}()
	<-started
}

// idOfTag finds the id the client put on the request carrying tag (from what it sent).
func (r *runner) idOfTag(tag string) string {
	for _, e := range r.rec.Events() {
		if e["ev"] != "Send" {
			continue
		}
		if items, ok := e["items"].([]any); ok {
			for _, x := range items {
				if m, ok := x.(map[string]any); ok && m["tag"] == tag {
					return fmt.Sprint(m["id"])
				}
			}
		}
	}
	return ""
}

func (r *runner) peer(st Step) {
	r.nrec++
	var parts []string
	var abs []any
	for j, it := range st.Items {
		tag := fmt.Sprintf("p%d.%d", r.nrec, j+1)
		id := strconv.Itoa(it.ID)
		a := map[string]any{"t": it.T, "id": id, "err": it.Err, "tag": tag}
		switch it.T {
		case "reply":
			// the same reply in three spellings: plain; members reordered with insignificant whitespace; names escaped
			switch sp := (r.nrec + j) % 3; {
			case it.Err && sp == 0:
				parts = append(parts, fmt.Sprintf(`{"jsonrpc":"2.0","id":%s,"error":{"code":-7,"message":"tag=%s refused"}}`, id, tag))
			case it.Err && sp == 1:
				parts = append(parts, fmt.Sprintf("{ \"error\" : {\"message\":\"tag=%s refused\" ,\t\"code\": -7 } ,\r\n \"id\" : %s , \"jsonrpc\":\"2.0\" }", tag, id))
			case it.Err:
				parts = append(parts, fmt.Sprintf(`{"jsonrpc":"2\u002e0","\u0069d":%s,"err\u006fr":{"c\u006fde":-7,"message":"tag=%s refused"}}`, id, tag))
			case sp == 0:
				parts = append(parts, fmt.Sprintf(`{"jsonrpc":"2.0","id":%s,"result":%q}`, id, tag))
			case sp == 1:
				parts = append(parts, fmt.Sprintf("{ \"result\" : %q ,\r\n\t\"id\" : %s , \"jsonrpc\" : \"2.0\" }", tag, id))
			default:
				parts = append(parts, fmt.Sprintf(`{"jsonrpc":"2\u002e0","\u0069d":%s,"r\u0065sult":%q}`, id, tag))
			}
		case "replynull": // a success reply that spells out "error":null (some servers always emit both members): the result - or,
			// for an implementation that takes "both members present" literally, an invalid-response error - but nothing else
			parts = append(parts, fmt.Sprintf(`{"jsonrpc":"2.0","id":%s,"result":%q,"error":null}`, id, tag))
			abs = append(abs, map[string]any{"t": "reply", "id": id, "err": false, "tag": tag})
			a = map[string]any{"t": "bad", "id": id, "err": false, "tag": tag}
		case "strid": // a reply whose id is the STRING spelling of a number we use: a different id, it answers nothing
			parts = append(parts, fmt.Sprintf(`{"jsonrpc":"2.0","id":"%s","result":%q}`, id, tag))
		case "nullerr": // an error the peer addresses to nobody (it could not tell whom): nobody's reply, however few are waiting
			parts = append(parts, fmt.Sprintf(`{"jsonrpc":"2.0","id":null,"error":{"code":-32700,"message":"tag=%s parse error"}}`, tag))
		case "noiderr":
			parts = append(parts, fmt.Sprintf(`{"jsonrpc":"2.0","error":{"code":-32600,"message":"tag=%s invalid request"}}`, tag))
		case "nullres":
			parts = append(parts, fmt.Sprintf(`{"jsonrpc":"2.0","id":null,"result":%q}`, tag))
		case "bad":
			// a malformed member that carries the id and a result (or error) member is that id's reply, however malformed:
			// a wrong version; or a method name next to the result (reply fields make it a reply - it is not a request
			// the server makes of us, and the call it answers does not go on waiting)
			switch (r.nrec + j) % 3 {
			case 1:
				parts = append(parts, fmt.Sprintf(`{"jsonrpc":"2.0","id":%s,"method":"sc","result":%q}`, id, tag))
			case 2:
				parts = append(parts, fmt.Sprintf(`{"jsonrpc":"2.0","id":%s,"error":{"code":-7,"message":"tag=%s refused"},"method":"sc"}`, id, tag))
			default:
				parts = append(parts, fmt.Sprintf(`{"jsonrpc":"1.0","id":%s,"result":%q}`, id, tag))
			}
		case "note":
			parts = append(parts, fmt.Sprintf(`{"jsonrpc":"2.0","method":"sn","params":{"tag":%q}}`, tag))
		case "call":
			parts = append(parts, fmt.Sprintf(`{"jsonrpc":"2.0","id":%s,"method":"sc","params":{"tag":%q}}`, id, tag))
		case "badcall": // request-shaped (method and id) but failing validation: still a request, never a reply
			switch (r.nrec + j) % 4 {
			case 0:
				parts = append(parts, fmt.Sprintf(`{"jsonrpc":"1.0","id":%s,"method":"sc","params":{"tag":%q}}`, id, tag))
			case 1:
				parts = append(parts, fmt.Sprintf(`{"id":%s,"method":"sc","params":{"tag":%q}}`, id, tag))
			case 2:
				parts = append(parts, fmt.Sprintf(`{"jsonrpc":"2.0","id":%s,"method":"sc","params":{"tag":%q},"extra":1}`, id, tag))
			default:
				parts = append(parts, fmt.Sprintf(`{"jsonrpc":"2.0","id":%s,"method":"sc","params":7}`, id))
			}
		}
		abs = append(abs, a)
	}
	txt := "[]" // (no items: an array without members - well-formed JSON, nothing in it for anybody)
	if len(parts) > 0 {
		txt = parts[0]
	}
	if (st.Arr && len(parts) > 0) || len(parts) > 1 {
		txt = "[" + strings.Join(parts, ",") + "]"
	}
	if abs == nil {
		abs = []any{}
	}
	// insignificant JSON whitespace in front of the record (space, tab, LF, CR) changes nothing
	txt = []string{"", " ", "\n", "\r\n", "\t", " \n ", "\r", "\n\n"}[r.nrec%8] + txt
	txt += strings.Repeat(" ", r.nrec) // makes every record's bytes unique (gate matching)
	r.recs = append(r.recs, []byte(txt))
	r.ch.Push([]byte(txt), vh.Event{"n": r.nrec, "items": abs})
}

func (r *runner) doClose() {
	r.mu.Lock()
	c := r.closed
	r.closed = true
	r.mu.Unlock()
	if c {
		return
	}
	go func() {
		r.rec.Log("CloseB")
		r.cli.Close()
		r.rec.Log("CloseE")
		close(r.closeCh)
	}()
}

func (r *runner) doStep(st Step) {
	s := r.sched
	switch st.A {
	case "op":
		r.startOp(st)
	case "peer":
		r.peer(st)
	case "garbage":
		r.ch.Push([]byte(`{"jsonrpc":"2.0",`), vh.Event{"ev": "RecvGarbage", "n": 0, "items": []any{}})
	case "peerclose":
		if !r.ch.PeerClosed() {
			r.rec.Log("PeerClose")
			r.ch.PeerClose()
		}
	case "recverr":
		r.ch.PushErr(nil, vh.ErrInjected, nil)
	case "recvclosing": // Recv fails with a closing-class error although nobody closed this channel
		r.ch.PushErr(nil, vh.ErrClosingInjected, nil)
	case "sendfail":
		r.rec.Log("SendFailArmed")
		r.ch.FailSends()
	case "closefail": // Close will close the channel and complain
		r.ch.FailClose(errors.New("transport: error while closing"))
	case "sendheal": // the failure was transient
		r.rec.Log("SendHealed")
		r.ch.HealSends()
	case "ctxend":
		if dl, ok := r.opDl[st.Op]; ok {
			r.rec.Log("CtxEnd", "op", st.Op, "kind", "deadline")
			if d := time.Until(dl); d > 0 {
				time.Sleep(d + time.Second)
			}
		} else if c := r.opCtx[st.Op]; c != nil {
			r.rec.Log("CtxEnd", "op", st.Op, "kind", "canceled")
			c()
		}
	case "close":
		r.doClose()
	case "cbret":
		r.mu.Lock()
		if st.Out != "" {
			r.cbOut[st.ID] = st.Out
		}
		if gs := r.cbGate[st.ID]; len(gs) > 0 {
			close(gs[0])
			r.cbGate[st.ID] = gs[1:]
		}
		r.mu.Unlock()
	case "cbretall":
		r.mu.Lock()
		for id, gs := range r.cbGate {
			for _, g := range gs {
				close(g)
			}
			r.cbGate[id] = nil
		}
		r.mu.Unlock()
	case "gate":
		ok := s.Release(func(p *vh.Parked) bool {
			if p.Site != st.Site {
				return false
			}
			switch st.Site {
			case "cli.req.lock", "cli.send.lock":
				r.mu.Lock()
				defer r.mu.Unlock()
				return p.Gid == r.opGid[st.Op]
			case "cli.deliver.lock":
				b, _ := p.Args[1].([]byte)
				return st.M >= 1 && st.M <= len(r.recs) && bytes.Equal(b, r.recs[st.M-1])
			case "cli.waitcomplete.lock", "cli.cbreply.lock":
				return fmt.Sprint(p.Args[1]) == st.ID
			}
			return true
		})
		if !ok && st.Soft {
			s.Diverged--
		}
	case "probe":
		var extra []func()
		switch s.Rng.IntN(3) {
		case 0:
			extra = append(extra, func() {
				r.mu.Lock()
				c := r.closed
				r.closed = true
				r.mu.Unlock()
				if !c {
					r.rec.Log("CloseB")
					r.cli.Close()
					r.rec.Log("CloseE")
					close(r.closeCh)
				}
			})
		case 1:
			extra = append(extra, func() { r.cli.Notify(context.Background(), "m", nil) })
		}
		kind := "send"
		if st.Kind == "close" {
			kind = "close"
		}
		if s.Probe(kind, extra) {
			r.stats["probes"]++
		}
	case "rand":
		for i := 0; i < max(1, st.N); i++ {
			if !s.ReleaseRandom() {
				break
			}
		}
	case "drain":
		s.Drain(10000)
	case "closereturn":
		// Close returns by itself; its return is logged when it happens.
	default:
		r.t.Fatalf("unknown step %q", st.A)
	}
	s.Settle()
	if st.Proj != nil && s.Diverged == 0 && r.stats["drift"] == 0 {
		// binding of ClientImpl: the real client's bookkeeping after this step must be the model's (diagnostic only:
		// a mismatch is reported as conformance drift, never as a verdict)
		sn := r.cli.VerifSnapshot()
		if sn.Pending == nil {
			sn.Pending = []string{}
		}
		if sn.NextID != st.Proj.NextID || sn.Stopped != st.Proj.Stopped || fmt.Sprint(sn.Pending) != fmt.Sprint(st.Proj.Pending) {
			r.stats["drift"]++
			r.rec.Log("Drift", "step", st.A, "site", st.Site, "model", fmt.Sprintf("%+v", *st.Proj), "code", fmt.Sprintf("%+v", sn))
		} else {
			r.stats["projok"]++
		}
	}
	if len(s.Waiting) == 0 {
		r.rec.Log("Quiescent")
	}
}

func stopCause(err error) string {
	switch {
	case err == nil:
		return "nil"
	case err == io.EOF:
		return "eof"
	case errors.Is(err, vh.ErrInjected):
		return "err"
	case channel.IsErrClosing(err):
		return "closed"
	case strings.Contains(err.Error(), "client has been stopped"):
		return "close"
	}
	var je *jrpc2.Error
	if errors.As(err, &je) {
		return "decode"
	}
	return "other"
}

// Run executes one scenario in a fresh bubble and hands the trace to emit (inside the bubble).
func Run(t *testing.T, sc *Scenario, emit func(evs []vh.Event, stats map[string]int)) {
	stats := map[string]int{}
	vh.SetClosedSentinel(channel.ErrClosed)
	synctest.Test(t, func(t *testing.T) {
		rec := &vh.Recorder{}
		s := vh.NewSched(sc.Seed)
		s.Free = sc.Opts.Free
		if sc.Opts.HookTouch {
			s.UseExt = true // a hook that cannot get the client's lock waits for a mutex: that must not stall the scenario
		}
		s.Pass["cli.close.lock"] = true
		r := &runner{t: t, sc: sc, rec: rec, sched: s, stats: stats, opGid: map[string]int64{}, opCtx: map[string]context.CancelFunc{},
			opDl: map[string]time.Time{}, cbGate: map[string][]chan struct{}{}, cbOut: map[string]string{}, closeCh: make(chan struct{})}
		jrpc2.VerifInstall(s.Point, nil)
		defer jrpc2.VerifInstall(nil, nil)
		r.ch = vh.NewVChan("c1", rec, sc.Opts.RecvUnblocks)
		s.RootGid = goid()
		r.ch.InSendHook = func() { s.InOp("send", "c1") }
		r.ch.InCloseHook = func() { s.InOp("close", "c1") }
		opts := &jrpc2.ClientOptions{
			OnNotify: func(req *jrpc2.Request) { rec.Log("OnNotify", "m", req.Method()) },
			OnCancel: func(cli *jrpc2.Client, rsp *jrpc2.Response) { rec.Log("OnCancel", "id", rsp.ID()) },
			OnStop: func(cli *jrpc2.Client, err error) {
				rec.Log("OnStop", "cause", stopCause(err))
				if sc.Opts.HookTouch {
					// a hook that looks at its client: the client is stopped by then, and says so at once
					st := cli.IsStopped()
					nerr := cli.Notify(context.Background(), "after-stop", nil)
					rec.Log("HookSaw", "stopped", st, "refused", nerr != nil)
				}
			},
		}
		if sc.Opts.Callback {
			opts.OnCallback = func(ctx context.Context, req *jrpc2.Request) (any, error) {
				id := req.ID()
				r.mu.Lock()
				g := make(chan struct{})
				r.cbGate[id] = append(r.cbGate[id], g)
				r.ncb++
				key := fmt.Sprintf("%s#%d", id, r.ncb)
				r.mu.Unlock()
				rec.Log("CbStart", "id", key, "aware", sc.Opts.CbAware)
				if sc.Opts.CbAware {
					select {
					case <-g:
					case <-ctx.Done():
					}
				} else {
					<-g
				}
				rec.Log("CbExit", "id", key)
				r.mu.Lock()
				out := r.cbOut[id]
				r.mu.Unlock()
				switch out { // whatever the handler returns, the client owes the server one complete reply
				case "err:7":
					return nil, jrpc2.Errorf(7, "cb-%s failed", id)
				case "err:plain":
					return nil, errors.New("cb-" + id + " plain failure")
				case "err:baddata":
					return nil, &jrpc2.Error{Code: 7, Message: "cb-" + id + " failed", Data: json.RawMessage(`{"bad":`)}
				case "badresult":
					return func() {}, nil
				case "panic":
					panic("cb-" + id + " panics")
				}
				return "cb-" + id, nil
			}
		}
		rec.Log("Start", "ch", "c1")
		r.cli = jrpc2.NewClient(r.ch, opts)
		*opts = jrpc2.ClientOptions{} // (options are read when the client is made)
		s.Settle()
		for _, st := range sc.Steps {
			r.doStep(st)
		}
		rec.Log("Teardown")
		r.doStep(Step{A: "cbretall"})
		r.doStep(Step{A: "drain"})
		r.doStep(Step{A: "close"})
		r.doStep(Step{A: "drain"})
		r.doStep(Step{A: "peerclose"})
		r.doStep(Step{A: "cbretall"})
		r.doStep(Step{A: "drain"})
		select {
		case <-r.closeCh:
		default:
			rec.Log("Deadlock", "what", "Close did not return after peer close and full drain")
		}
		snap := r.cli.VerifSnapshot()
		rec.Log("Final", "pending", len(snap.Pending), "closes", r.ch.Closes(), "stoppedflag", r.cli.IsStopped())
		synctest.Wait()
		if n := leaked(); n > 0 {
			rec.Log("Leak", "n", n)
			stats["leak"] = n
			if os.Getenv("VERIF_DEBUG") != "" {
				fmt.Fprintln(os.Stderr, vh.BubbleGoroutines())
			}
		}
		stats["releases"] = s.Releases
		stats["racy"] = s.RacyPoints
		stats["diverged"] = s.Diverged
		emit(rec.Events(), stats)
	})
}

func leaked() int {
	n := 0
	for _, blk := range strings.Split(vh.BubbleGoroutines(), "\n\n") {
		first, _, _ := strings.Cut(blk, "\n")
		if strings.Contains(first, "synctest bubble") && !strings.Contains(first, "running") &&
			!strings.Contains(blk, "internal/synctest.Run(") && !strings.Contains(blk, "testingSynctestTest(") {
			n++
		}
	}
	return n
}

// LoadScenarios reads ndjson scenarios.
func LoadScenarios(path string) ([]*Scenario, error) {
	b, err := os.ReadFile(path)
	if err != nil {
		return nil, err
	}
	var out []*Scenario
	for _, line := range strings.Split(string(b), "\n") {
		if strings.TrimSpace(line) == "" {
			continue
		}
		sc := new(Scenario)
		if err := json.Unmarshal([]byte(line), sc); err != nil {
			return nil, fmt.Errorf("%v in %q", err, line)
		}
		out = append(out, sc)
	}
	return out, nil
}

var _ = sort.Strings
