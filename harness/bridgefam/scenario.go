// Package bridgefam drives a real jhttp.Bridge with concurrent HTTP requests
// inside a testing/synctest bubble (httptest recorders, gated handlers, gates
// of the shared inner Client) through scenarios generated from BridgeImpl.
package bridgefam

import (
	"bytes"
	"context"
	"encoding/json"
	"errors"
	"fmt"
	"io"
	"net/http"
	"net/http/httptest"
	"os"
	"runtime"
	"strconv"
	"strings"
	"sync"
	"testing"
	"testing/synctest"

	"github.com/creachadair/jrpc2"
	"github.com/creachadair/jrpc2/jhttp"
	"verif/harness/vh"
)

type Member struct {
	K   string `json:"k"` // call | note | inv
	ID  int    `json:"id"`
	Var int    `json:"var"`
}
type Step struct {
	A    string   `json:"a"`
	H    string   `json:"h,omitempty"`
	Kind string   `json:"kind,omitempty"` // ok | notpost | badtype | badcharset | garbage | emptyarr
	Mem  []Member `json:"mem,omitempty"`
	Site string   `json:"site,omitempty"`
	Tag  string   `json:"tag,omitempty"`
	Out  string   `json:"out,omitempty"`
	N    int      `json:"n,omitempty"`
	CT   *string  `json:"ct,omitempty"` // the Content-Type header to use instead of the kind's own choice
}
type Scenario struct {
	Name  string `json:"name"`
	Seed  uint64 `json:"seed"`
	Steps []Step `json:"steps"`
}

func goid() int64 {
	var buf [64]byte
	s := strings.TrimPrefix(string(buf[:runtime.Stack(buf[:], false)]), "goroutine ")
	v, _ := strconv.ParseInt(s[:strings.IndexByte(s, ' ')], 10, 64)
	return v
}

type runner struct {
	t      *testing.T
	rec    *vh.Recorder
	sched  *vh.Sched
	bridge jhttp.Bridge
	mu     sync.Mutex
	hgid   map[string]int64
	hgate  map[string]chan string
	run    map[string]bool
	pend   int
}

func (r *runner) gate(tag string) chan string {
	r.mu.Lock()
	defer r.mu.Unlock()
	g := r.hgate[tag]
	if g == nil {
		g = make(chan string, 4)
		r.hgate[tag] = g
	}
	return g
}

type asg struct{ r *runner }

func (a asg) Assign(ctx context.Context, method string) jrpc2.Handler {
	if method != "h" {
		return nil
	}
	return func(ctx context.Context, req *jrpc2.Request) (any, error) {
		tag := vh.TagOf(json.RawMessage(req.ParamString()))
		a.r.rec.Log("HStart", "tag", tag)
		a.r.mu.Lock()
		a.r.run[tag] = true
		a.r.mu.Unlock()
		out := <-a.r.gate(tag)
		a.r.rec.Log("HExit", "tag", tag, "out", out)
		a.r.mu.Lock()
		delete(a.r.run, tag)
		a.r.mu.Unlock()
		switch {
		case out == "ok":
			return tag, nil
		case out == "err:plain":
			return nil, errors.New("plain failure")
		case out == "err:baddata": // an *Error that cannot be encoded as it stands
			return nil, &jrpc2.Error{Code: 7, Message: "failed", Data: json.RawMessage(`{"bad":`)}
		default:
			n, _ := strconv.Atoi(strings.TrimPrefix(out, "err:"))
			return nil, jrpc2.Errorf(jrpc2.Code(n), "failed")
		}
	}
}

// normID canonicalises an id text by JSON value (the caller's id must come back JSON-equal; how the
// bridge spells escapes inside a string id is not judged).
func normID(txt string) string {
	var v any
	dec := json.NewDecoder(strings.NewReader(txt))
	dec.UseNumber()
	if dec.Decode(&v) != nil {
		return txt
	}
	var sb strings.Builder
	enc := json.NewEncoder(&sb)
	enc.SetEscapeHTML(false)
	enc.Encode(v)
	return strings.TrimSpace(sb.String())
}

func idText(id, v int) string {
	switch v % 6 {
	case 1:
		return fmt.Sprintf(`"%d"`, id)
	case 2:
		return fmt.Sprintf(`"id %d <&>"`, id)
	case 3:
		return fmt.Sprintf(`%d.5`, id)
	case 4: // characters that mean something to formatting and quoting code: the id comes back as it was sent all the same
		return fmt.Sprintf(`"%d%%d 100%%%% \\ \" \u00e9"`, id)
	case 5:
		return fmt.Sprintf(`"%%s%%v%d"`, id)
	}
	return strconv.Itoa(id)
}

func (r *runner) http(st Step) {
	h := st.H
	var parts []string
	var abs []any
	for i, m := range st.Mem {
		tag := fmt.Sprintf("%s.%d", h, i+1)
		id := idText(m.ID, m.Var)
		a := map[string]any{"k": m.K, "id": "", "tag": tag, "echo": ""}
		switch m.K {
		case "call":
			parts = append(parts, fmt.Sprintf(`{"jsonrpc":"2.0","id":%s,"method":"h","params":{"tag":%q}}`, id, tag))
			a["id"] = normID(id)
		case "note":
			if m.Var%2 == 1 { // an explicit null id is no id
				parts = append(parts, fmt.Sprintf(`{"jsonrpc":"2.0","id":null,"method":"h","params":{"tag":%q}}`, tag))
			} else {
				parts = append(parts, fmt.Sprintf(`{"jsonrpc":"2.0","method":"h","params":{"tag":%q}}`, tag))
			}
		case "void": // well-formed as far as the parser goes, but nothing: no id, no method
			parts = append(parts, `{"jsonrpc":"2.0"}`)
		case "inv":
			switch m.Var % 4 {
			case 0:
				parts = append(parts, fmt.Sprintf(`{"jsonrpc":"1.0","id":%s,"method":"h","params":{"tag":%q}}`, id, tag))
				a["echo"] = normID(id)
			case 3: // a call that is also a reply
				extra := []string{`"result":0`, `"error":{"code":1,"message":"x"}`, `"result":null`}[len(tag)%3]
				parts = append(parts, fmt.Sprintf(`{"jsonrpc":"2.0","id":%s,"method":"h","params":{"tag":%q},%s}`, id, tag, extra))
				a["echo"] = normID(id)
			case 1:
				parts = append(parts, fmt.Sprintf(`{"jsonrpc":"2.0","id":%s,"method":"h","params":7}`, id))
				a["echo"] = normID(id)
			default:
				parts = append(parts, `17`)
			}
		}
		abs = append(abs, a)
	}
	// the layout of a body (what a pretty-printer, a here-document or a file with a final newline would send) changes nothing
	lay := len(h)
	for _, m := range st.Mem {
		lay += m.Var
	}
	lead := []string{"", "\n", "\r\n", " \t", "\n  ", ""}[lay%6]
	trail := []string{"", "\n", "", " \r\n"}[lay%4]
	sep := []string{",", ",\n", " , "}[lay%3]
	body := ""
	if len(parts) == 1 && st.Mem[0].Var%2 == 0 {
		body = lead + parts[0] + trail
	} else {
		body = lead + "[" + strings.TrimLeft(lead, "\r ") + strings.Join(parts, sep) + trail + "]" + trail
	}
	method, ctype := "POST", "application/json"
	kind := st.Kind
	if kind == "" {
		kind = "ok"
	}
	switch kind {
	case "notpost":
		method = []string{"GET", "PUT", "DELETE"}[len(h)%3]
	case "badtype": // not JSON (an absent header included)
		ctype = []string{"text/plain", "application/jsonx", "application/xml; charset=utf-8", "", "json", "text/json"}[(len(h)+len(st.Mem))%6]
	case "badcharset": // JSON in another character set
		ctype = []string{"application/json; charset=latin1", "application/json; charset=utf-16", "application/json;charset=us-ascii", `application/json; charset="iso-8859-1"`}[(len(h)+len(st.Mem))%4]
	case "garbage":
		body = `{"jsonrpc":"2.0",`
	case "trailing": // a complete, well-formed message followed by more bytes: the body as a whole is not valid JSON
		body += []string{"]", " garbage", body, ","}[len(st.Mem)%4]
	case "emptyarr":
		body = lead + `[` + trail + `]` + trail
	case "ok": // every spelling of "JSON in UTF-8"
		ctype = []string{"application/json", "application/json; charset=utf-8", "application/json;charset=utf8", "Application/JSON", `application/json; charset="utf-8"`,
			"application/json; foo=bar"}[(len(h)+len(body))%6]
	}
	if st.CT != nil {
		ctype = *st.CT
	}
	if abs == nil {
		abs = []any{}
	}
	if kind != "ok" {
		// the members of a refused request must not run; keep them for the contract
	}
	r.mu.Lock()
	r.pend++
	r.mu.Unlock()
	started := make(chan struct{})
	go func() {
		r.mu.Lock()
		r.hgid[h] = goid()
		r.mu.Unlock()
		r.rec.Log("HTTPReqB", "h", h, "kind", kind, "method", method, "ctype", ctype, "mem", abs)
		close(started)
		// how the body travels is not the bridge's business either: with its length declared, or - a chunked upload,
		// any reader the HTTP client cannot measure - without (ContentLength -1)
		var rd io.Reader = strings.NewReader(body)
		if (len(body)+len(h))%3 == 1 {
			rd = struct{ io.Reader }{rd}
		}
		req := httptest.NewRequest(method, "http://bridge/", rd)
		req.Header.Set("Content-Type", ctype)
		w := httptest.NewRecorder()
		func() {
			defer func() { // (a real HTTP server recovers the panic and drops the connection: the caller gets no answer)
				if p := recover(); p != nil {
					w = httptest.NewRecorder()
					w.Code = 599
					w.Body.WriteString(fmt.Sprintf(`{"panic":%q}`, fmt.Sprint(p)))
				}
			}()
			r.bridge.ServeHTTP(w, req)
		}()
		items := []any{}
		shape := "empty"
		b := bytes.TrimSpace(w.Body.Bytes())
		if len(b) > 0 {
			e := vh.ClassifyRecord(b)
			shape = e["shape"].(string)
			items = e["items"].([]any)
			for _, it := range items {
				if m, ok := it.(map[string]any); ok {
					m["id"] = normID(fmt.Sprint(m["id"]))
				}
			}
		}
		r.rec.Log("HTTPReqE", "h", h, "status", w.Code, "shape", shape, "items", items, "raw", string(b))
		r.mu.Lock()
		r.pend--
		r.mu.Unlock()
	}()
	<-started
}

func bridgeSite(site string) bool { return site == "cli.req.lock" || site == "cli.send.lock" }

func (r *runner) doStep(st Step) {
	s := r.sched
	switch st.A {
	case "http":
		r.http(st)
	case "gate":
		ok := s.Release(func(p *vh.Parked) bool {
			r.mu.Lock()
			defer r.mu.Unlock()
			return p.Site == st.Site && p.Gid == r.hgid[st.H]
		})
		_ = ok
	case "hret":
		r.gate(st.Tag) <- st.Out
	case "hretall":
		r.mu.Lock()
		var tags []string
		for t := range r.run {
			tags = append(tags, t)
		}
		r.mu.Unlock()
		for _, t := range tags {
			select {
			case r.gate(t) <- "ok":
			default:
			}
		}
	case "drainsrv": // everything except the request-level critical sections of the HTTP callers
		for n := 0; n < 10000; n++ {
			s.Settle()
			i := -1
			for k, p := range s.Waiting {
				if !bridgeSite(p.Site) {
					i = k
					break
				}
			}
			if i < 0 {
				break
			}
			// seeded choice among the eligible ones
			var el []int
			for k, p := range s.Waiting {
				if !bridgeSite(p.Site) {
					el = append(el, k)
				}
			}
			s.ReleaseIdx(el[s.Rng.IntN(len(el))])
		}
	case "rand":
		for i := 0; i < max(1, st.N); i++ {
			if !s.ReleaseRandom() {
				break
			}
		}
	case "drain":
		s.Drain(10000)
	default:
		r.t.Fatalf("unknown step %q", st.A)
	}
	s.Settle()
	if len(s.Waiting) == 0 {
		r.rec.Log("Quiescent")
	}
}

// Run executes one scenario and hands the trace to emit (inside the bubble).
func Run(t *testing.T, sc *Scenario, emit func([]vh.Event, map[string]int)) {
	stats := map[string]int{}
	synctest.Test(t, func(t *testing.T) {
		rec := &vh.Recorder{}
		s := vh.NewSched(sc.Seed)
		// the inner server's reader is never held back: the shared client sends on an unbuffered channel.Direct while
		// holding its mutex, and a goroutine waiting for that mutex is not durably blocked
		for _, site := range []string{"cli.close.lock", "srv.stop.lock", "srv.cancel.lock", "srv.push.lock", "srv.read.lock"} {
			s.Pass[site] = true
		}
		r := &runner{t: t, rec: rec, sched: s, hgid: map[string]int64{}, hgate: map[string]chan string{}, run: map[string]bool{}}
		jrpc2.VerifInstall(func(site string, args ...any) {
			if site == "srv.batch.start" {
				return
			}
			s.Point(site, args...)
		}, nil)
		defer jrpc2.VerifInstall(nil, nil)
		r.bridge = jhttp.NewBridge(asg{r}, &jhttp.BridgeOptions{Server: &jrpc2.ServerOptions{Concurrency: 16}})
		s.Settle()
		r.doStep(Step{A: "drain"})
		for _, st := range sc.Steps {
			r.doStep(st)
		}
		rec.Log("Teardown")
		// until no HTTP request is pending and no handler is running or about to start (the handler of a notification
		// may start after its request has been answered): two quiet rounds in a row
		quiet := 0
		for round := 0; round < 60 && quiet < 2; round++ {
			r.doStep(Step{A: "hretall"})
			r.doStep(Step{A: "drain"})
			r.mu.Lock()
			busy := r.pend != 0 || len(r.run) != 0
			r.mu.Unlock()
			if busy {
				quiet = 0
			} else {
				quiet++
			}
		}
		rec.Log("Final")
		done := make(chan struct{})
		go func() { r.bridge.Close(); close(done) }()
		s.Drain(10000)
		synctest.Wait()
		select {
		case <-done:
		default:
			rec.Log("Deadlock", "what", "Bridge.Close did not return")
		}
		stats["releases"] = s.Releases
		stats["racy"] = s.RacyPoints
		emit(rec.Events(), stats)
	})
}

// LoadScenarios reads ndjson scenarios.
func LoadScenarios(path string) ([]*Scenario, error) {
	b, err := os.ReadFile(path)
	if err != nil {
		return nil, err
	}
	var out []*Scenario
	for _, line := range strings.Split(string(b), "\n") {
		if strings.TrimSpace(line) == "" {
			continue
		}
		sc := new(Scenario)
		if err := json.Unmarshal([]byte(line), sc); err != nil {
			return nil, fmt.Errorf("%v in %q", err, line)
		}
		out = append(out, sc)
	}
	return out, nil
}

var _ = http.StatusOK
