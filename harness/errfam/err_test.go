// Package errfam replays the TLC-evaluated table of spec/Errors.tla (C14): every
// error tree is built from the real constructors, returned by a real handler
// and observed at a real client (Call, Batch, CallResult, and through a server
// Callback); the code / sentinel class is compared with the reference, message
// and data of concrete *Error values with what was returned.
package errfam

import (
	"bytes"
	"context"
	"encoding/json"
	"errors"
	"fmt"
	"math"
	"math/rand/v2"
	"os"
	"strconv"
	"strings"
	"testing"
	"time"

	"github.com/creachadair/jrpc2"
	"github.com/creachadair/jrpc2/handler"
	"github.com/creachadair/jrpc2/server"
)

type Tree struct {
	K   string `json:"k"`
	C   int    `json:"c"`
	Sub []Tree `json:"sub"`
}
type Cell struct {
	Tree     Tree   `json:"tree"`
	Code     int    `json:"code"`
	Wire     int    `json:"wire"`
	Exact    bool   `json:"exact"`
	Sentinel string `json:"sentinel"`
}
type Table struct {
	Cells []Cell `json:"cells"`
	Codes []int  `json:"codes"`
}

type valCoder struct {
	code jrpc2.Code
	msg  string
}

func (v valCoder) Error() string       { return v.msg }
func (v valCoder) ErrCode() jrpc2.Code { return v.code }

type ptrCoder struct {
	code jrpc2.Code
}

func (p *ptrCoder) Error() string       { return "ptr coder" }
func (p *ptrCoder) ErrCode() jrpc2.Code { return p.code }

type wrapCoder struct {
	code  jrpc2.Code
	inner error
}

func (w wrapCoder) Error() string       { return "wrap coder: " + w.inner.Error() }
func (w wrapCoder) ErrCode() jrpc2.Code { return w.code }
func (w wrapCoder) Unwrap() error       { return w.inner }

// msgVariants are the character classes of error texts (all valid UTF-8: every one of them must arrive unchanged)
var msgVariants = []string{`<&> "q"`, "tab\tnl\ncr\r", "ctl\x01\a\v\x7f\x00", "sep\u2028\u2029", "astral😀\U000e0001", `back\slash/`, "é ü 漢", ""}

func msgText(k int) string {
	return msgVariants[((k%len(msgVariants))+len(msgVariants))%len(msgVariants)]
}

var dataVariants = []any{nil, json.RawMessage(`null`), 17, map[string]any{"a": []int{1, 2}, "b": "x y"}, "text"}

func build(t Tree, k int) error {
	switch t.K {
	case "J":
		e := &jrpc2.Error{Code: jrpc2.Code(t.C), Message: fmt.Sprintf("jerr %d %s", k, msgText(k/len(dataVariants)))}
		if k%3 == 1 {
			e.Message = "" // no message at all: none arrives (not the standard text of the code, if it has one)
		}
		return e.WithData(dataVariants[k%len(dataVariants)])
	case "K":
		return jrpc2.Code(t.C).Err()
	case "V":
		return valCoder{jrpc2.Code(t.C), "value coder " + msgText(k)}
	case "P":
		return &ptrCoder{jrpc2.Code(t.C)}
	case "Can":
		return context.Canceled
	case "Dl":
		return context.DeadlineExceeded
	case "Plain":
		return errors.New("plain failure " + msgText(k))
	case "W":
		if k%2 == 0 {
			return fmt.Errorf("context: %w", build(t.Sub[0], k))
		}
		return fmt.Errorf("a: %w", fmt.Errorf("b: %w", build(t.Sub[0], k)))
	case "CW":
		return wrapCoder{jrpc2.Code(t.C), build(t.Sub[0], k)}
	case "Join":
		return errors.Join(build(t.Sub[0], k), build(t.Sub[1], k))
	}
	panic("unknown node " + t.K)
}

type violation struct {
	Property string `json:"property"`
	Tree     string `json:"tree"`
	Via      string `json:"via"`
	Why      string `json:"why"`
}
type result struct {
	Evaluations int            `json:"evaluations"`
	Cells       int            `json:"cells"`
	Classes     map[string]int `json:"classes"`
	Violations  []violation    `json:"violations"`
	Samples     []string       `json:"samples"`
}

// checkClient compares the error a client-side API returned with the reference cell.
func checkClient(c Cell, herr, cerr error) string {
	if cerr == nil {
		return "the caller got no error"
	}
	// (the code on the wire is the handler-side code - but for an error that is not an *Error and whose coder says
	// NoError: that one travels as an internal error, the reference says so)
	if got, want := jrpc2.ErrorCode(cerr), jrpc2.ErrorCode(herr); got != want && !(int(want) != c.Wire && int(got) == c.Wire) {
		return fmt.Sprintf("client-side ErrorCode %d, handler-side ErrorCode %d (the reference: %d on the wire)", got, want, c.Wire)
	}
	if int(jrpc2.ErrorCode(herr)) != c.Code {
		return fmt.Sprintf("ErrorCode of the handler's error is %d, the reference says %d", jrpc2.ErrorCode(herr), c.Code)
	}
	switch c.Sentinel {
	case "canceled":
		if cerr != context.Canceled {
			return fmt.Sprintf("want exactly context.Canceled, got %T %v", cerr, cerr)
		}
	case "deadline":
		if cerr != context.DeadlineExceeded {
			return fmt.Sprintf("want exactly context.DeadlineExceeded, got %T %v", cerr, cerr)
		}
	default:
		je, ok := cerr.(*jrpc2.Error)
		if !ok {
			return fmt.Sprintf("want *jrpc2.Error, got %T %v", cerr, cerr)
		}
		if c.Exact {
			he := herr.(*jrpc2.Error)
			if je.Code != he.Code || je.Message != he.Message || !jsonEqual(je.Data, he.Data) {
				return fmt.Sprintf("*Error changed in transit: sent %+v, got %+v", he, je)
			}
		}
	}
	return ""
}

func nullAsAbsent(a json.RawMessage) json.RawMessage {
	if string(bytes.TrimSpace(a)) == "null" {
		return nil
	}
	return a
}

func jsonEqual(a, b json.RawMessage) bool {
	if len(a) == 0 || len(b) == 0 {
		return len(a) == len(b)
	}
	var x, y any
	if json.Unmarshal(a, &x) != nil || json.Unmarshal(b, &y) != nil {
		return false
	}
	bx, _ := json.Marshal(x)
	by, _ := json.Marshal(y)
	return bytes.Equal(bx, by)
}

func TestErrors(t *testing.T) {
	tp := os.Getenv("VERIF_TABLE")
	if tp == "" {
		t.Skip("no VERIF_TABLE")
	}
	var tab Table
	b, err := os.ReadFile(tp)
	if err != nil {
		t.Fatal(err)
	}
	if err := json.Unmarshal(b, &tab); err != nil {
		t.Fatal(err)
	}
	shard, _ := strconv.Atoi(os.Getenv("VERIF_SHARD"))
	nshard, _ := strconv.Atoi(os.Getenv("VERIF_NSHARD"))
	if nshard == 0 {
		nshard = 1
	}
	seed, _ := strconv.ParseUint(os.Getenv("VERIF_SEED"), 10, 64)
	rng := rand.New(rand.NewPCG(seed, uint64(shard)+3))
	res := &result{Classes: map[string]int{}}
	add := func(tree any, via, why string) {
		if len(res.Violations) < 20 {
			tj, _ := json.Marshal(tree)
			res.Violations = append(res.Violations, violation{"C14", string(tj), via, why})
		}
	}

	var current error
	var currentVal any
	started := make(chan string, 1)
	var batchErrs []error // "failix" returns the error its parameter names: several different failures in one batch
	mux := handler.Map{
		"failix": func(ctx context.Context, req *jrpc2.Request) (any, error) {
			var p struct{ I int }
			if err := req.UnmarshalParams(&p); err != nil || p.I < 0 || p.I >= len(batchErrs) {
				return nil, errors.New("harness: bad index")
			}
			return nil, batchErrs[p.I]
		},
		"fail": func(ctx context.Context, req *jrpc2.Request) (any, error) { return nil, current },
		"val":  func(ctx context.Context, req *jrpc2.Request) (any, error) { return currentVal, nil },
		// the handler's own error must reach the caller also when its context was cancelled meanwhile
		"failc": func(ctx context.Context, req *jrpc2.Request) (any, error) {
			started <- req.ID()
			<-ctx.Done()
			return nil, current
		},
		"viacb": func(ctx context.Context, req *jrpc2.Request) (any, error) {
			_, err := jrpc2.ServerFromContext(ctx).Callback(ctx, "cb", nil)
			if err == nil {
				return "no error", nil
			}
			// report what the server-side caller of Callback observed
			je, isJ := err.(*jrpc2.Error)
			out := map[string]any{"code": int(jrpc2.ErrorCode(err)), "isJ": isJ, "canceled": err == context.Canceled, "deadline": err == context.DeadlineExceeded}
			if isJ {
				out["msg"] = je.Message
				out["data"] = je.Data
			}
			return out, nil
		},
	}
	loc := server.NewLocal(mux, &server.LocalOptions{
		Server: &jrpc2.ServerOptions{AllowPush: true, Concurrency: 1},
		Client: &jrpc2.ClientOptions{OnCallback: func(ctx context.Context, req *jrpc2.Request) (any, error) { return nil, current }},
	})
	defer loc.Close()
	ctx := context.Background()

	for i, c := range tab.Cells {
		if i%nshard != shard {
			continue
		}
		res.Cells++
		res.Classes[c.Sentinel+"/"+strconv.FormatBool(c.Exact)]++
		k := rng.IntN(1000)
		herr := build(c.Tree, k)
		current = herr
		// Call
		_, cerr := loc.Client.Call(ctx, "fail", nil)
		res.Evaluations++
		if why := checkClient(c, herr, cerr); why != "" {
			add(c.Tree, "Call", why)
			continue
		}
		// CallResult
		var out any
		res.Evaluations++
		if why := checkClient(c, herr, loc.Client.CallResult(ctx, "fail", nil, &out)); why != "" {
			add(c.Tree, "CallResult", why)
		}
		// Batch: the response's Error() carries the code (no sentinel filtering there)
		rsps, berr := loc.Client.Batch(ctx, []jrpc2.Spec{{Method: "fail"}, {Method: "fail", Notify: true}, {Method: "fail"}})
		res.Evaluations++
		if berr != nil || len(rsps) != 2 || rsps[0].Error() == nil || rsps[1].Error() == nil {
			add(c.Tree, "Batch", fmt.Sprintf("err=%v, %d responses", berr, len(rsps)))
		} else if got := rsps[1].Error().Code; int(got) != c.Wire {
			add(c.Tree, "Batch", fmt.Sprintf("response code %d, want %d", got, c.Wire))
		} else if c.Exact {
			he := herr.(*jrpc2.Error)
			if je := rsps[0].Error(); je.Message != he.Message || !jsonEqual(je.Data, he.Data) {
				add(c.Tree, "Batch", fmt.Sprintf("*Error changed in transit: sent %+v, got %+v", he, je))
			}
		}
		// the same error returned after the request was cancelled with CancelRequest (the handler still returns its own error)
		if i%4 == 1 {
			done := make(chan error, 1)
			go func() { _, err := loc.Client.Call(ctx, "failc", nil); done <- err }()
			id := <-started
			loc.Server.CancelRequest(id)
			cerr2 := <-done
			res.Evaluations++
			if why := checkClient(c, herr, cerr2); why != "" {
				add(c.Tree, "Call after CancelRequest", why)
			}
		}
		// through a server Callback: the client-side callback handler returns the error
		if i%3 == 0 {
			var seen struct {
				Code               int
				IsJ                bool
				Canceled, Deadline bool
				Msg                string
				Data               json.RawMessage
			}
			res.Evaluations++
			if err := loc.Client.CallResult(ctx, "viacb", nil, &seen); err != nil {
				add(c.Tree, "Callback", "viacb failed: "+err.Error())
			} else if seen.Code != c.Code {
				add(c.Tree, "Callback", fmt.Sprintf("server-side caller saw code %d, want %d", seen.Code, c.Code))
			} else if (c.Sentinel == "canceled") != seen.Canceled || (c.Sentinel == "deadline") != seen.Deadline {
				add(c.Tree, "Callback", fmt.Sprintf("sentinel class: canceled=%v deadline=%v, want %s", seen.Canceled, seen.Deadline, c.Sentinel))
			} else if c.Exact {
				he := herr.(*jrpc2.Error)
				// (the report travels as JSON: an absent data member arrives as null)
				if seen.Msg != he.Message || !jsonEqual(nullAsAbsent(seen.Data), nullAsAbsent(he.Data)) {
					add(c.Tree, "Callback", fmt.Sprintf("*Error changed in transit: sent %+v, got msg %q data %s", he, seen.Msg, seen.Data))
				}
			}
		}
		if len(res.Samples) < 4 && i%97 == 0 {
			tj, _ := json.Marshal(c.Tree)
			res.Samples = append(res.Samples, string(tj))
		}
	}

	if shard == 0 {
		// ErrorCode(c.Err()) == c for every code other than NoError; all int32 classes plus seeded draws
		codes := append([]int(nil), tab.Codes...)
		for k := 0; k < 2000; k++ {
			codes = append(codes, int(int32(rng.Uint32())))
		}
		for _, c := range codes {
			res.Evaluations++
			if jrpc2.Code(c) == jrpc2.NoError {
				if jrpc2.Code(c).Err() != nil {
					add(c, "Code.Err", "NoError.Err() must be nil")
				}
				continue
			}
			if got := jrpc2.ErrorCode(jrpc2.Code(c).Err()); int(got) != c {
				add(c, "Code.Err", fmt.Sprintf("ErrorCode(Code(%d).Err()) = %d", c, got))
			}
			// and every code travels unchanged in an *Error
			current = jrpc2.Errorf(jrpc2.Code(c), "code %d", c)
			_, cerr := loc.Client.Call(ctx, "fail", nil)
			if int(jrpc2.ErrorCode(cerr)) != c {
				add(c, "Call", fmt.Sprintf("code %d arrived as %d (%v)", c, jrpc2.ErrorCode(cerr), cerr))
			}
		}
		// an error reply that has been handed to its call is what the call returns - also when the caller's context ends
		// right afterwards (the client's log line "Completed request" is written inside the delivery, after the hand-over:
		// the logger cancels the context there; same for a deadline that passes there)
		{
			var cancel context.CancelFunc
			loc2 := server.NewLocal(mux, &server.LocalOptions{
				Server: &jrpc2.ServerOptions{Concurrency: 1},
				Client: &jrpc2.ClientOptions{Logger: func(text string) {
					if strings.Contains(text, "Completed request") && cancel != nil {
						cancel()
					}
				}},
			})
			for k, he := range []error{jrpc2.Errorf(77, "boom").WithData(map[string]any{"k": []int{1, 2, 3}}), jrpc2.Errorf(jrpc2.InvalidParams, "no"), errors.New("plain failure"),
				&jrpc2.Error{Code: 5}, fmt.Errorf("wrapped: %w", jrpc2.Errorf(9, "inner"))} {
				current = he
				var cctx context.Context
				cctx, cancel = context.WithCancel(context.Background())
				_, cerr := loc2.Client.Call(cctx, "fail", nil)
				cancel()
				res.Evaluations++
				if cerr == context.Canceled || jrpc2.ErrorCode(cerr) != jrpc2.ErrorCode(he) {
					add(fmt.Sprintf("error %d", k), "Call, context ended right after the reply was handed over", fmt.Sprintf("the handler failed with %v (code %d); the caller got %v (code %d)", he, jrpc2.ErrorCode(he), cerr, jrpc2.ErrorCode(cerr)))
				} else if je, ok := he.(*jrpc2.Error); ok {
					if ce, ok := cerr.(*jrpc2.Error); !ok || ce.Message != je.Message || !jsonEqual(nullAsAbsent(ce.Data), nullAsAbsent(je.Data)) {
						add(fmt.Sprintf("error %d", k), "Call, context ended right after the reply was handed over", fmt.Sprintf("*Error changed in transit: sent %+v, got %+v", je, cerr))
					}
				}
			}
			cancel = nil
			loc2.Close()
		}
		// WithData never modifies its receiver
		for _, d := range []any{nil, 1, "x", map[string]int{"a": 1}, make(chan int), math.NaN(), json.RawMessage(`{"k": [1, 2]}`)} {
			// receivers with data of several capacities (a receiver whose data has room to spare is the interesting one),
			// and one without; the snapshot is a string: a struct copy would share the data's backing array
			for _, orig := range []json.RawMessage{json.RawMessage(`"orig"`), append(make(json.RawMessage, 0, 64), `{"detail":"the default text"}`...), nil} {
				base := &jrpc2.Error{Code: 7, Message: "m", Data: orig}
				snap := string(base.Data)
				w := base.WithData(d)
				res.Evaluations++
				if base.Code != 7 || base.Message != "m" || string(base.Data) != snap {
					add(fmt.Sprint(d), "WithData", fmt.Sprintf("receiver modified: data %q is now %q", snap, base.Data))
				}
				if w == nil || w.Code != 7 || w.Message != "m" {
					add(fmt.Sprint(d), "WithData", fmt.Sprintf("result %+v", w))
				} else if want, err := json.Marshal(d); err == nil && d != nil && w != base && !jsonEqual(w.Data, want) {
					add(fmt.Sprint(d), "WithData", fmt.Sprintf("result data %q, want %q", w.Data, want))
				}
				// a second derivation from the same receiver must not disturb the first one
				if w != nil {
					wsnap := string(w.Data)
					base.WithData("zz")
					if string(w.Data) != wsnap || string(base.Data) != snap {
						add(fmt.Sprint(d), "WithData", fmt.Sprintf("a later WithData changed earlier values: %q -> %q, receiver %q", wsnap, w.Data, base.Data))
					}
				}
			}
		}
		// a result that cannot be marshalled becomes an error response, never a malformed or missing one
		type cyc struct{ F func() }
		for _, v := range []any{make(chan int), func() {}, math.NaN(), math.Inf(1), map[string]any{"a": make(chan int)}, []any{1, cyc{}}, json.RawMessage(`{"bad":`), map[bool]int{true: 1}} {
			currentVal = v
			res.Evaluations++
			rsp, err := loc.Client.Call(ctx, "val", nil)
			if err == nil {
				add(fmt.Sprintf("%T", v), "unmarshalable result", fmt.Sprintf("got a success response %q", rsp.ResultString()))
			} else if _, ok := err.(*jrpc2.Error); !ok {
				add(fmt.Sprintf("%T", v), "unmarshalable result", fmt.Sprintf("want an error response, got %T %v", err, err))
			}
			// the connection is still usable
			currentVal = "fine"
			if _, err := loc.Client.Call(ctx, "val", nil); err != nil {
				add(fmt.Sprintf("%T", v), "unmarshalable result", "connection unusable afterwards: "+err.Error())
			}
		}
	}
	// several different failures in one batch: every response carries the classification (and for an *Error the text and
	// data) of ITS handler's error, whatever its batch-mates return
	{
		var group []Cell
		flush := func() {
			if len(group) < 2 {
				return
			}
			batchErrs = batchErrs[:0]
			var specs []jrpc2.Spec
			for j, c := range group {
				batchErrs = append(batchErrs, build(c.Tree, 100+j))
				specs = append(specs, jrpc2.Spec{Method: "failix", Params: map[string]int{"i": j}})
			}
			res.Evaluations++
			rsps, err := loc.Client.Batch(ctx, specs)
			if err != nil || len(rsps) != len(group) {
				add(group[0].Tree, "Batch of failures", fmt.Sprintf("Batch: %d responses, err %v", len(rsps), err))
			} else {
				for j, c := range group {
					he, je := batchErrs[j], rsps[j].Error()
					if je == nil || (int(je.Code) != int(jrpc2.ErrorCode(he)) && int(je.Code) != c.Wire) { // (c.Wire: see checkClient)
						add(c.Tree, "Batch of failures", fmt.Sprintf("member %d of %d: response error %v, its handler's error has code %d", j+1, len(group), je, jrpc2.ErrorCode(he)))
					} else if x, ok := he.(*jrpc2.Error); ok && c.Exact && (je.Message != x.Message || !jsonEqual(je.Data, x.Data)) {
						add(c.Tree, "Batch of failures", fmt.Sprintf("member %d of %d: *Error changed in transit: sent %+v, got %+v", j+1, len(group), x, je))
					}
				}
			}
			group = group[:0]
		}
		for i, c := range tab.Cells {
			if i%nshard != shard {
				continue
			}
			group = append(group, c)
			if len(group) == 4 {
				flush()
			}
		}
		flush()
	}
	if shard == 0 {
		// an *Error whose data cannot be encoded as it stands still becomes an error response (never a missing one)
		for _, via := range []string{"Call", "Batch"} {
			current = &jrpc2.Error{Code: 7, Message: "m", Data: json.RawMessage(`{"bad":`)}
			res.Evaluations++
			octx, cancel := context.WithTimeout(ctx, 5*time.Second)
			var err error
			if via == "Call" {
				_, err = loc.Client.Call(octx, "fail", nil)
			} else {
				var rsps []*jrpc2.Response
				rsps, err = loc.Client.Batch(octx, []jrpc2.Spec{{Method: "val"}, {Method: "fail"}})
				if err == nil && len(rsps) == 2 {
					if e := rsps[1].Error(); e != nil {
						err = e
					}
					if rsps[0].Error() != nil {
						add("unencodable error data", via, fmt.Sprintf("the sibling call of the batch failed: %v", rsps[0].Error()))
					}
				}
			}
			cancel()
			if _, ok := err.(*jrpc2.Error); !ok {
				add("unencodable error data", via, fmt.Sprintf("want an error response, got %T %v", err, err))
			}
			current = nil
			currentVal = "fine"
			if _, err := loc.Client.Call(ctx, "val", nil); err != nil {
				add("unencodable error data", via, "connection unusable afterwards: "+err.Error())
			}
		}
	}
	out, _ := json.Marshal(res)
	if p := os.Getenv("VERIF_OUT"); p != "" {
		os.WriteFile(p, out, 0o644)
	}
}
