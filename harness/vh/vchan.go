package vh

import (
	"bytes"
	"encoding/json"
	"errors"
	"io"
	"net"
	"strings"
	"sync"
)

// ErrInjected is the error reported by injected channel faults.
var ErrInjected = errors.New("injected channel failure")

type inItem struct {
	data []byte
	err  error
	meta Event // abstract description of the record (logged with the Recv event)
}

// A VChan is the instrumented channel.Channel handed to the library.  The
// harness plays the peer through Push/PeerClose/PushErr and reads what the
// library sent from Out.  All events are logged inside the method, on the
// library's goroutine.
type VChan struct {
	frame        []byte // the frame being assembled (see Send)
	Name         string
	Rec          *Recorder
	RecvUnblocks bool // does Close unblock a pending Recv (pipe-like) or not (channel.Direct-like)?

	in         chan inItem
	closeCh    chan struct{}
	closeErr   error    // what Close reports (see FailClose)
	held       [][]byte // the slices Send was given (aliases) ...
	heldCopy   [][]byte // ... and what they held then
	peerClosed bool     // only touched by the scenario's root goroutine

	mu          sync.Mutex
	closed      int
	sendFail    bool
	Out         [][]byte
	InSendHook  func() // if set, called inside Send after SB was logged (C10 overlap probe)
	InRecvHook  func()
	InCloseHook func()
}

// NewVChan returns a channel named name logging to rec.
func NewVChan(name string, rec *Recorder, recvUnblocks bool) *VChan {
	return &VChan{Name: name, Rec: rec, RecvUnblocks: recvUnblocks,
		in: make(chan inItem, 1024), closeCh: make(chan struct{})}
}

// Push makes data available to the library's next Recv.
func (c *VChan) Push(data []byte, meta Event) {
	if c.peerClosed {
		return // the peer has closed its end; nothing more can be sent
	}
	c.in <- inItem{data: data, meta: meta}
}

// PushErr makes the library's next Recv fail with err (data may accompany it).
func (c *VChan) PushErr(data []byte, err error, meta Event) {
	if c.peerClosed {
		return
	}
	c.in <- inItem{data: data, err: err, meta: meta}
}

// PeerClose closes the peer's end: after the queued records Recv reports io.EOF.
func (c *VChan) PeerClose() {
	if !c.peerClosed {
		c.peerClosed = true
		close(c.in)
	}
}

// PeerClosed reports whether PeerClose was called.
func (c *VChan) PeerClosed() bool { return c.peerClosed }

// FailSends makes every subsequent Send report an error.
func (c *VChan) FailSends() { c.mu.Lock(); c.sendFail = true; c.mu.Unlock() }

// HealSends ends a transient failure: Sends succeed again.
func (c *VChan) HealSends() { c.mu.Lock(); c.sendFail = false; c.mu.Unlock() }

// Lock and Unlock give the harness consistent access to Out.
func (c *VChan) Lock()   { c.mu.Lock() }
func (c *VChan) Unlock() { c.mu.Unlock() }

// Closes reports how often Close was called.
func (c *VChan) Closes() int { c.mu.Lock(); defer c.mu.Unlock(); return c.closed }

// Send implements channel.Channel.
func (c *VChan) Send(b []byte) error {
	c.checkHeld()
	c.Rec.Log("SB", "ch", c.Name)
	c.mu.Lock()
	if len(c.held) < 64 {
		c.held = append(c.held, b) // the slice itself, not a copy: see checkHeld
		c.heldCopy = append(c.heldCopy, append([]byte(nil), b...))
	}
	c.mu.Unlock()
	// Like the header framings, this channel assembles the outgoing frame in one buffer of its own: it is safe for one
	// sender at a time and no more (the contract of channel.Channel).  A Send that overlaps another one transmits
	// whatever the buffer holds when it gets to write.
	c.mu.Lock()
	c.frame = append(c.frame[:0], b...)
	c.mu.Unlock()
	if h := c.InSendHook; h != nil {
		h()
	}
	c.mu.Lock()
	fail := c.sendFail || c.closed > 0
	cp := append([]byte(nil), c.frame...)
	if !fail {
		c.Out = append(c.Out, cp)
	}
	c.mu.Unlock()
	e := ClassifyRecord(cp)
	e["ev"] = "Send"
	e["ch"] = c.Name
	e["ok"] = !fail
	c.Rec.mu.Lock()
	c.Rec.events = append(c.Rec.events, e)
	c.Rec.mu.Unlock()
	c.Rec.Log("SE", "ch", c.Name)
	if fail {
		return ErrInjected
	}
	return nil
}

// Recv implements channel.Channel.
func (c *VChan) Recv() ([]byte, error) {
	c.Rec.Log("RB", "ch", c.Name)
	if h := c.InRecvHook; h != nil {
		h()
	}
	var it inItem
	var ok bool
	if c.RecvUnblocks {
		select {
		case it, ok = <-c.in:
		case <-c.closeCh:
			c.Rec.Log("RecvErr", "ch", c.Name, "kind", "closed")
			c.Rec.Log("RE", "ch", c.Name)
			return nil, errClosedPipe
		}
	} else {
		it, ok = <-c.in
	}
	if !ok {
		c.Rec.Log("RecvErr", "ch", c.Name, "kind", "eof")
		c.Rec.Log("RE", "ch", c.Name)
		return nil, io.EOF
	}
	if it.err != nil && len(it.data) == 0 {
		kind := "err"
		if it.err == io.EOF {
			kind = "eof"
		} else if errors.Is(it.err, net.ErrClosed) || (errChannelClosed != nil && errors.Is(it.err, errChannelClosed)) {
			kind = "closed" // a closing-class error (channel.IsErrClosing): the transport was closed underneath
		}
		c.Rec.Log("RecvErr", "ch", c.Name, "kind", kind)
		c.Rec.Log("RE", "ch", c.Name)
		return nil, it.err
	}
	e := Event{"ev": "Recv", "ch": c.Name}
	for k, v := range it.meta {
		e[k] = v
	}
	c.Rec.mu.Lock()
	c.Rec.events = append(c.Rec.events, e)
	c.Rec.mu.Unlock()
	c.Rec.Log("RE", "ch", c.Name)
	return it.data, it.err
}

// ErrClosingInjected is a closing-class Recv error as a network connection closed underneath reports it.
var ErrClosingInjected error = &net.OpError{Op: "read", Net: "tcp", Err: net.ErrClosed}

var errClosedPipe = &closedErr{}

type closedErr struct{}

func (*closedErr) Error() string   { return "read/write on closed pipe" }
func (*closedErr) Unwrap() error   { return errChannelClosed }
func (*closedErr) Is(t error) bool { return t == errChannelClosed }

var errChannelClosed error // set by the family packages to channel.ErrClosed

// SetClosedSentinel tells VChan which sentinel a closing error wraps.
func SetClosedSentinel(err error) { errChannelClosed = err }

// Close implements channel.Channel.
func (c *VChan) Close() error {
	c.checkHeld()
	c.Rec.Log("CB", "ch", c.Name)
	if h := c.InCloseHook; h != nil {
		h()
	}
	c.mu.Lock()
	c.closed++
	first := c.closed == 1
	c.mu.Unlock()
	if first {
		close(c.closeCh)
	}
	c.Rec.Log("ChClose", "ch", c.Name)
	c.Rec.Log("CE", "ch", c.Name)
	c.mu.Lock()
	cerr := c.closeErr
	c.mu.Unlock()
	return cerr // (the channel is closed all the same: a transport that complains while shutting down)
}

// checkHeld: a channel may hand the very bytes it was given on to its peer (channel.Direct does: "without encoding or
// copying"), who reads them whenever it gets round to it. So what was passed to Send stays what it was: the sender
// does not write into it again - not for the next message either. The channel keeps the slices it was given and
// looks at them again at every later Send and at Close; a changed one is logged (BufferReused), once.
func (c *VChan) checkHeld() {
	c.mu.Lock()
	var changed []int
	for i := range c.held {
		if c.held[i] != nil && !bytes.Equal(c.held[i], c.heldCopy[i]) {
			changed = append(changed, i)
			c.held[i] = nil
		}
	}
	c.mu.Unlock()
	for _, i := range changed {
		c.Rec.Log("BufferReused", "ch", c.Name, "n", i+1)
	}
}

// FailClose makes Close report err (after closing the channel as usual).
func (c *VChan) FailClose(err error) { c.mu.Lock(); c.closeErr = err; c.mu.Unlock() }

// ClassifyRecord abstracts a record emitted by the library into an event:
// shape ("object", "array", "emptyarray", "other"), and per item its id text,
// whether it is a request (method) or a response (result / error code), and the
// payload tag.  It uses only encoding/json's generic decoder.
func ClassifyRecord(b []byte) Event {
	e := Event{"raw": string(b), "oneline": !bytes.ContainsAny(b, "\n\r")}
	if !json.Valid(b) {
		e["shape"] = "other"
		e["items"] = []any{}
		return e
	}
	tb := bytes.TrimSpace(b)
	var raws []json.RawMessage
	switch {
	case len(tb) > 0 && tb[0] == '[':
		json.Unmarshal(tb, &raws)
		if len(raws) == 0 {
			e["shape"] = "emptyarray"
		} else {
			e["shape"] = "array"
		}
	case len(tb) > 0 && tb[0] == '{':
		e["shape"] = "object"
		raws = []json.RawMessage{tb}
	default:
		e["shape"] = "other"
	}
	items := []any{}
	for _, r := range raws {
		items = append(items, ClassifyItem(r))
	}
	e["items"] = items
	return e
}

// ClassifyItem abstracts one JSON-RPC message object.
func ClassifyItem(r json.RawMessage) map[string]any {
	it := map[string]any{"id": "", "kind": "other", "code": 0, "tag": "", "dup": false, "m": "", "v": ""}
	var obj map[string]json.RawMessage
	if json.Unmarshal(r, &obj) != nil {
		it["kind"] = "nonobject"
		return it
	}
	if v, ok := obj["jsonrpc"]; ok {
		var s string
		if json.Unmarshal(v, &s) == nil {
			it["v"] = s
		}
	}
	if id, ok := obj["id"]; ok {
		it["id"] = strings.TrimSpace(string(id))
	}
	_, hasM := obj["method"]
	_, hasR := obj["result"]
	_, hasE := obj["error"]
	switch {
	case hasM && !hasR && !hasE:
		it["kind"] = "request"
		var m string
		json.Unmarshal(obj["method"], &m)
		it["m"] = m
		it["tag"] = TagOf(obj["params"])
	case hasR && !hasE && !hasM:
		it["kind"] = "result"
		it["tag"] = TagOf(obj["result"])
	case hasE && !hasR && !hasM:
		it["kind"] = "error"
		var eo struct {
			Code    *json.Number `json:"code"`
			Message *string      `json:"message"`
			Data    json.RawMessage
		}
		dec := json.NewDecoder(bytes.NewReader(obj["error"]))
		dec.UseNumber()
		if dec.Decode(&eo) != nil || eo.Code == nil {
			it["kind"] = "baderror"
			break
		}
		n, err := eo.Code.Int64()
		if err != nil {
			it["kind"] = "baderror"
			break
		}
		it["code"] = int(n)
		if eo.Message != nil && strings.Contains(*eo.Message, "duplicate") {
			it["dup"] = true
		}
		if eo.Message != nil {
			it["tag"] = TagOf(json.RawMessage(strconvQuote(*eo.Message)))
		}
	default:
		it["kind"] = "mixed"
	}
	return it
}

func strconvQuote(s string) string { b, _ := json.Marshal(s); return string(b) }

// TagOf extracts the harness tag from a params/result value: either the string
// itself ("m1.2") or the "tag" member of an object.
func TagOf(v json.RawMessage) string {
	if len(v) == 0 {
		return ""
	}
	var s string
	if json.Unmarshal(v, &s) == nil {
		if i := strings.Index(s, "tag="); i >= 0 {
			s = s[i+4:]
			if j := strings.IndexAny(s, " ;,"); j >= 0 {
				s = s[:j]
			}
			return s
		}
		return s
	}
	var o struct {
		Tag string `json:"tag"`
	}
	if json.Unmarshal(v, &o) == nil {
		return o.Tag
	}
	return ""
}
