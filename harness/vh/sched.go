package vh

import (
	"bytes"
	"fmt"
	"math/rand/v2"
	"runtime"
	"strconv"
	"testing/synctest"
)

// A Parked goroutine is waiting at a vhook.Point site.
type Parked struct {
	Site string
	Args []any
	Gid  int64
	rel  chan struct{}
}

// A Sched is the gate scheduler of one scenario.  In controlled mode every
// goroutine reaching a vhook.Point parks (durably, on a channel) and reports
// itself; the scenario's root goroutine releases them one at a time and waits
// for quiescence (synctest.Wait) after each release, so at most one library
// goroutine runs at any time and a (scenario, seed) pair is a deterministic
// schedule at critical-section granularity.
type Sched struct {
	arrive  chan *Parked
	Waiting []*Parked
	Pass    map[string]bool // sites that never park (external API calls made by the harness)
	Rng     *rand.Rand
	Free    bool // free-running: never park
	// counters
	Releases   int
	Diverged   int // steering requests that found no matching goroutine
	RacyPoints int // releases made while >= 2 goroutines were parked
}

// NewSched returns a scheduler with the given seed.
func NewSched(seed uint64) *Sched {
	return &Sched{
		arrive: make(chan *Parked, 4096),
		Pass:   map[string]bool{},
		Rng:    rand.New(rand.NewPCG(seed, 0x9e3779b97f4a7c15)),
	}
}

func gid() int64 {
	var buf [64]byte
	n := runtime.Stack(buf[:], false)
	// "goroutine 123 [running]:"
	b := buf[:n]
	b = bytes.TrimPrefix(b, []byte("goroutine "))
	i := bytes.IndexByte(b, ' ')
	if i < 0 {
		return -1
	}
	v, _ := strconv.ParseInt(string(b[:i]), 10, 64)
	return v
}

// Point is the function installed as the library's vhook point function.
func (s *Sched) Point(site string, args ...any) {
	if s.Free || s.Pass[site] {
		return
	}
	p := &Parked{Site: site, Args: args, Gid: gid(), rel: make(chan struct{})}
	s.arrive <- p
	<-p.rel
}

// Settle waits until every goroutine of the bubble is durably blocked and
// collects the goroutines that have parked meanwhile.
func (s *Sched) Settle() {
	synctest.Wait()
	for {
		select {
		case p := <-s.arrive:
			s.Waiting = append(s.Waiting, p)
		default:
			return
		}
	}
}

// Sites lists the sites of the parked goroutines.
func (s *Sched) Sites() []string {
	var out []string
	for _, p := range s.Waiting {
		out = append(out, p.Site)
	}
	return out
}

// ReleaseIdx releases the i-th parked goroutine and settles.
func (s *Sched) ReleaseIdx(i int) *Parked {
	p := s.Waiting[i]
	if len(s.Waiting) >= 2 {
		s.RacyPoints++
	}
	s.Waiting = append(s.Waiting[:i:i], s.Waiting[i+1:]...)
	s.Releases++
	close(p.rel)
	s.Settle()
	return p
}

// Release releases the first parked goroutine for which match returns true.
// It reports whether one was found.
func (s *Sched) Release(match func(*Parked) bool) bool {
	for i, p := range s.Waiting {
		if match(p) {
			s.ReleaseIdx(i)
			return true
		}
	}
	s.Diverged++
	return false
}

// ReleaseRandom releases one parked goroutine chosen by the seeded generator.
func (s *Sched) ReleaseRandom() bool {
	if len(s.Waiting) == 0 {
		return false
	}
	s.ReleaseIdx(s.Rng.IntN(len(s.Waiting)))
	return true
}

// Drain releases parked goroutines in seeded-random order until none is left
// (true quiescence), up to max releases.
func (s *Sched) Drain(max int) error {
	s.Settle()
	for n := 0; len(s.Waiting) > 0; n++ {
		if n >= max {
			return fmt.Errorf("drain: still %d parked after %d releases: %v", len(s.Waiting), max, s.Sites())
		}
		s.ReleaseRandom()
	}
	return nil
}

// BubbleGoroutines returns a stack dump of all goroutines (for leak reports).
func BubbleGoroutines() string {
	buf := make([]byte, 1<<20)
	n := runtime.Stack(buf, true)
	return string(buf[:n])
}
