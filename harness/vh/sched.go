package vh

import (
	"bytes"
	"fmt"
	"math/rand/v2"
	"os"
	"runtime"
	"strconv"
	"strings"
	"sync"
	"testing/synctest"
)

// A Parked goroutine is waiting at a vhook.Point site.
type Parked struct {
	Site string
	Args []any
	Gid  int64
	rel  chan struct{}
}

// A Sched is the gate scheduler of one scenario.  In controlled mode every
// goroutine reaching a vhook.Point parks (durably, on a channel) and reports
// itself; the scenario's root goroutine releases them one at a time and waits
// for quiescence (synctest.Wait) after each release, so at most one library
// goroutine runs at any time and a (scenario, seed) pair is a deterministic
// schedule at critical-section granularity.
type Sched struct {
	// Hold is a goroutine parked inside a channel operation that the scenario keeps there across steps (HoldOp /
	// Unhold): random releases and drains pass it over, and quiescence is the extended one while it is held.
	Hold *Parked
	// OnProbeSettled is called by Probe once everything but the parked operation has run as far as it can.
	OnProbeSettled func(site string)
	holdExt        bool
	holdSite       string
	armText        string // (under armMu) the text a held log line must contain
	arrive         chan *Parked
	Waiting        []*Parked
	Pass           map[string]bool // sites that never park (external API calls made by the harness)
	Rng            *rand.Rand
	Free           bool // free-running: never park
	UseExt         bool // Settle with the extended quiescence detector (mutex waits count as settled)
	armMu          sync.Mutex
	armOp          string // "" | "send" | "close": the next channel operation of that kind (not on the root goroutine) parks inside the operation
	RootGid        int64
	// counters
	Probes     int
	Releases   int
	Diverged   int // steering requests that found no matching goroutine
	RacyPoints int // releases made while >= 2 goroutines were parked
}

// NewSched returns a scheduler with the given seed.
func NewSched(seed uint64) *Sched {
	return &Sched{
		arrive: make(chan *Parked, 4096),
		Pass:   map[string]bool{},
		Rng:    rand.New(rand.NewPCG(seed, 0x9e3779b97f4a7c15)),
	}
}

func gid() int64 {
	var buf [64]byte
	n := runtime.Stack(buf[:], false)
	// "goroutine 123 [running]:"
	b := buf[:n]
	b = bytes.TrimPrefix(b, []byte("goroutine "))
	i := bytes.IndexByte(b, ' ')
	if i < 0 {
		return -1
	}
	v, _ := strconv.ParseInt(string(b[:i]), 10, 64)
	return v
}

// Point is the function installed as the library's vhook point function.
func (s *Sched) Point(site string, args ...any) {
	if s.Free || s.Pass[site] {
		return
	}
	p := &Parked{Site: site, Args: args, Gid: gid(), rel: make(chan struct{})}
	s.arrive <- p
	<-p.rel
}

// InOp is called by the instrumented channel inside an operation (after its
// begin event was logged).  If a probe is armed for that kind of operation the
// calling goroutine parks here, i.e. while it holds whatever lock the library
// holds around the operation.
func (s *Sched) InOp(kind, ch string) {
	if s.Free || gid() == s.RootGid {
		return
	}
	s.armMu.Lock() // (channel operations of the library run on any goroutine)
	if s.armOp != kind {
		s.armMu.Unlock()
		return
	}
	s.armOp = ""
	s.armMu.Unlock()
	p := &Parked{Site: "vchan.in" + kind, Args: []any{ch}, Gid: gid(), rel: make(chan struct{})}
	s.arrive <- p
	<-p.rel
}

// InLog is called from the Logger the harness gives the library. Log lines sit at places no hook marks - some under the
// library's lock, some (after a refactoring) just outside it; a scenario can hold the goroutine that writes the next line
// containing a given text right there (HoldLog / Unhold), exactly as it holds one inside a channel operation.
func (s *Sched) InLog(text string) {
	if s.Free || gid() == s.RootGid {
		return
	}
	s.armMu.Lock()
	if s.armOp != "log" || !strings.Contains(text, s.armText) {
		s.armMu.Unlock()
		return
	}
	s.armOp = ""
	s.armMu.Unlock()
	p := &Parked{Site: "vchan.inlog", Args: []any{text}, Gid: gid(), rel: make(chan struct{})}
	s.arrive <- p
	<-p.rel
}

// HoldLog arms a hold at the next log line that contains text.
func (s *Sched) HoldLog(text string) {
	s.armMu.Lock()
	s.armText = text
	s.armMu.Unlock()
	s.HoldOp("log")
}

// SettleExt is the extended quiescence used while a goroutine is parked inside
// a channel operation (possibly holding the library's mutex): it polls a
// consistent stack snapshot until every other goroutine of the bubble is either
// durably blocked or waiting for a sync.Mutex, then collects new arrivals.
// (Mutex waits are not durable, so synctest.Wait cannot be used here.)
func (s *Sched) SettleExt() {
	LastIters = -1
	for i := 0; i < 200000; i++ {
		if allWaiting() {
			LastIters = i
			break
		}
		runtime.Gosched()
	}
	for {
		select {
		case p := <-s.arrive:
			s.collect(p)
		default:
			return
		}
	}
}

func allWaiting() bool {
	buf := make([]byte, 1<<20)
	buf = buf[:runtime.Stack(buf, true)]
	// every header line "goroutine N [state, ...]:" is looked at (not blocks between blank lines: the dump of a
	// goroutine that is running on another thread is spaced differently); the first one is the caller itself
	n := 0
	for _, line := range bytes.Split(buf, []byte("\n")) {
		if !bytes.HasPrefix(line, []byte("goroutine ")) || !bytes.HasSuffix(line, []byte("]:")) {
			continue
		}
		n++
		if n == 1 {
			continue
		}
		// a goroutine that is running or runnable is not waiting - and the header of a runnable one does not say which
		// bubble it belongs to: any such goroutine counts (those outside the bubble sit in channel receives)
		if bytes.Contains(line, []byte("[runnable")) || bytes.Contains(line, []byte("[running")) {
			return false
		}
		if !bytes.Contains(line, []byte("synctest bubble")) {
			// no bubble named: the test's main goroutine (blocked in a channel receive for the whole run) - or a goroutine of
			// the bubble that the runtime has taken out of it for a moment (it does so around GC work: such a goroutine
			// waits for a runtime semaphore or does a share of the marking, and then goes on)
			if bytes.HasPrefix(line, []byte("goroutine 1 [")) || bytes.Contains(line, []byte("[chan receive")) || bytes.Contains(line, []byte("[syscall")) {
				continue
			}
			return false
		}
		if bytes.Contains(line, []byte("(durable)")) || bytes.Contains(line, []byte("sync.Mutex.Lock")) ||
			bytes.Contains(line, []byte("sync.RWMutex")) {
			continue
		}
		return false
	}
	if len(buf) == 1<<20 {
		return false // truncated dump: no conclusion
	}
	if debugSettle {
		LastSnapshot = string(buf)
	}
	return true
}

var debugSettle = os.Getenv("VERIF_DEBUG_SETTLE") != ""

// LastSnapshot is the stack dump on which the extended quiescence was last concluded (debugging aid).
var LastSnapshot string
var LastIters int

// Find returns the index of the first parked goroutine at site, or -1.
func (s *Sched) Find(site string) int {
	for i, p := range s.Waiting {
		if p.Site == site {
			return i
		}
	}
	return -1
}

// ReleaseIdxExt releases the i-th parked goroutine and settles with SettleExt.
func (s *Sched) ReleaseIdxExt(i int) {
	p := s.Waiting[i]
	s.Waiting = append(s.Waiting[:i:i], s.Waiting[i+1:]...)
	s.Releases++
	close(p.rel)
	s.SettleExt()
}

func (s *Sched) arm(kind string) {
	s.armMu.Lock()
	s.armOp = kind
	s.armMu.Unlock()
}

// Probe arms an in-operation park for kind, runs the schedule (seeded-random
// releases) until some goroutine is parked inside such an operation, then, with
// it parked there, releases every other parked goroutine and runs the external
// calls in extra (each on its own goroutine), waiting for extended quiescence
// after each; finally the operation is allowed to finish.  Any channel
// operation begun by another goroutine meanwhile is in the trace between the
// begin and end events of the parked operation.
func (s *Sched) Probe(kind string, extra []func()) bool {
	site := "vchan.in" + kind
	s.arm(kind)
	s.Settle()
	for n := 0; s.Find(site) < 0 && n < 300; n++ {
		if !s.ReleaseRandom() {
			break
		}
	}
	s.arm("")
	i := s.Find(site)
	if i < 0 {
		return false
	}
	s.Probes++
	in := s.Waiting[i]
	for n := 0; n < 100; n++ {
		j := -1
		for k, p := range s.Waiting {
			if p != in {
				j = k
				break
			}
		}
		if j < 0 {
			break
		}
		s.ReleaseIdxExt(j)
	}
	if s.OnProbeSettled != nil && len(s.Waiting) == 1 {
		s.OnProbeSettled(site) // nothing can move except the operation in progress
	}
	for _, f := range extra {
		go f()
		s.SettleExt()
	}
	for k, p := range s.Waiting {
		if p == in {
			s.ReleaseIdx(k)
			break
		}
	}
	return true
}

// Settle waits until every goroutine of the bubble is durably blocked and
// collects the goroutines that have parked meanwhile.
func (s *Sched) Settle() {
	if s.UseExt || s.holdSite != "" {
		// a goroutine may legitimately wait for a mutex whose holder is durably blocked (a Client sending on an
		// unbuffered channel.Direct while the receiving reader is parked at a gate): use the extended detector
		s.SettleExt()
		return
	}
	synctest.Wait()
	for {
		select {
		case p := <-s.arrive:
			s.collect(p)
		default:
			return
		}
	}
}

// Sites lists the sites of the parked goroutines.
func (s *Sched) Sites() []string {
	var out []string
	for _, p := range s.Waiting {
		out = append(out, p.Site)
	}
	return out
}

// ReleaseIdx releases the i-th parked goroutine and settles.
func (s *Sched) ReleaseIdx(i int) *Parked {
	p := s.Waiting[i]
	if len(s.Waiting) >= 2 {
		s.RacyPoints++
	}
	s.Waiting = append(s.Waiting[:i:i], s.Waiting[i+1:]...)
	s.Releases++
	close(p.rel)
	s.Settle()
	return p
}

// Release releases the first parked goroutine for which match returns true.
// It reports whether one was found.
func (s *Sched) Release(match func(*Parked) bool) bool {
	for i, p := range s.Waiting {
		if match(p) {
			s.ReleaseIdx(i)
			return true
		}
	}
	s.Diverged++
	return false
}

// ReleaseRandom releases one parked goroutine chosen by the seeded generator.
func (s *Sched) ReleaseRandom() bool {
	var idx []int
	for i, p := range s.Waiting {
		if p != s.Hold {
			idx = append(idx, i)
		}
	}
	if len(idx) == 0 {
		return false
	}
	s.ReleaseIdx(idx[s.Rng.IntN(len(idx))])
	return true
}

// Holding reports whether an operation is held, or a hold is armed and not yet taken.
func (s *Sched) Holding() bool { return s.Hold != nil || s.holdSite != "" }

// Others reports the number of parked goroutines apart from the held one.
func (s *Sched) Others() int {
	n := len(s.Waiting)
	if s.Hold != nil {
		n--
	}
	return n
}

// HoldOp arms an in-operation park for kind: whichever goroutine next enters such an operation is parked inside it
// (possibly holding the library's mutex) and stays there, across the steps of the scenario, until Unhold.
func (s *Sched) HoldOp(kind string) {
	s.holdSite = "vchan.in" + kind
	s.arm(kind)
}

func (s *Sched) collect(p *Parked) {
	s.Waiting = append(s.Waiting, p)
	if s.holdSite != "" && p.Site == s.holdSite && s.Hold == nil {
		s.Hold, s.holdSite = p, ""
		s.holdExt = s.UseExt
		s.UseExt = true
		s.Probes++
	}
}

// Unhold lets the held operation finish.
func (s *Sched) Unhold() {
	h := s.Hold
	if h == nil {
		if s.holdSite != "" { // nobody entered the operation
			s.holdSite = ""
			s.arm("")
		}
		return
	}
	s.Hold = nil
	s.UseExt = s.holdExt
	for k, p := range s.Waiting {
		if p == h {
			s.ReleaseIdx(k)
			return
		}
	}
}

// Drain releases parked goroutines in seeded-random order until none is left
// (true quiescence), up to max releases.
func (s *Sched) Drain(max int) error {
	s.Settle()
	for n := 0; s.Others() > 0; n++ {
		if n >= max {
			return fmt.Errorf("drain: still %d parked after %d releases: %v", len(s.Waiting), max, s.Sites())
		}
		s.ReleaseRandom()
	}
	return nil
}

// BubbleGoroutines returns a stack dump of all goroutines (for leak reports).
func BubbleGoroutines() string {
	buf := make([]byte, 1<<20)
	n := runtime.Stack(buf, true)
	return string(buf[:n])
}
