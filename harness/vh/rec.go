// Package vh is the core of the conformance harness: an event recorder, a gate
// scheduler for the vhook.Point sites of the library, and an instrumented
// channel.  It contains no oracle logic: it drives and records.  Verdicts come
// from TLC validating the recorded traces against the TLA+ contracts.
package vh

import (
	"bufio"
	"encoding/json"
	"fmt"
	"os"
	"sync"
)

// An Event is one line of a trace: {"ev": name, ...fields}.
type Event map[string]any

// A Recorder collects the events of one scenario in the order in which they
// were logged.  Every event is logged on the goroutine that performs the
// action, during the action, so happens-before implies log order.
type Recorder struct {
	mu     sync.Mutex
	events []Event
}

// Log appends an event; kv are alternating keys and values.
func (r *Recorder) Log(ev string, kv ...any) {
	e := Event{"ev": ev}
	for i := 0; i+1 < len(kv); i += 2 {
		e[kv[i].(string)] = kv[i+1]
	}
	r.mu.Lock()
	r.events = append(r.events, e)
	r.mu.Unlock()
}

// Events returns a copy of the events logged so far.
func (r *Recorder) Events() []Event {
	r.mu.Lock()
	defer r.mu.Unlock()
	return append([]Event(nil), r.events...)
}

// Len reports the number of events logged so far.
func (r *Recorder) Len() int {
	r.mu.Lock()
	defer r.mu.Unlock()
	return len(r.events)
}

// A TraceWriter writes scenario traces as ndjson: a Reset line followed by the
// scenario's events.
type TraceWriter struct {
	f *os.File
	w *bufio.Writer
}

// NewTraceWriter opens (appends to) path.
func NewTraceWriter(path string) (*TraceWriter, error) {
	f, err := os.OpenFile(path, os.O_CREATE|os.O_WRONLY|os.O_APPEND, 0o644)
	if err != nil {
		return nil, err
	}
	return &TraceWriter{f: f, w: bufio.NewWriter(f)}, nil
}

// WriteScenario writes one scenario's trace and flushes it.
func (t *TraceWriter) WriteScenario(name string, hdr Event, evs []Event) error {
	h := Event{"ev": "Reset", "scn": name}
	for k, v := range hdr {
		h[k] = v
	}
	all := append([]Event{h}, evs...)
	for _, e := range all {
		b, err := json.Marshal(e)
		if err != nil {
			return fmt.Errorf("event %v: %w", e, err)
		}
		t.w.Write(b)
		t.w.WriteByte('\n')
	}
	if err := t.w.Flush(); err != nil {
		return err
	}
	return t.f.Sync()
}

// Close closes the underlying file.
func (t *TraceWriter) Close() error { t.w.Flush(); return t.f.Close() }
