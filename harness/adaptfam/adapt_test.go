// Package adaptfam replays the TLC-evaluated decision tables of
// spec/HandlerAdapt.tla (C15, C16) into handler.Check / New / Wrap,
// handler.Positional, handler.Args and handler.Obj.  Function types for the
// signature grammar are synthesised with reflect.FuncOf / reflect.MakeFunc.
// The tables decide accepted / called / not called / InvalidParams; the value
// the function must receive is computed here with encoding/json directly
// (after an independent array-to-field translation from the table's names).
package adaptfam

import (
	"bytes"
	"context"
	"encoding/json"
	"errors"
	"fmt"
	"os"
	"reflect"
	"strconv"
	"strings"
	"sync"
	"sync/atomic"
	"testing"
	"time"

	"github.com/creachadair/jrpc2"
	"github.com/creachadair/jrpc2/handler"
)

type SigCell struct {
	Nin          int    `json:"nin"`
	In0          string `json:"in0"`
	Variadic     bool   `json:"variadic"`
	Nout         int    `json:"nout"`
	O1           string `json:"o1"`
	O2           string `json:"o2"`
	Accept       bool   `json:"accept"`
	HasArg       bool   `json:"hasArg"`
	ReportsError bool   `json:"reportsError"`
	HasResult    bool   `json:"hasResult"`
}
type WrapCell struct {
	V          string `json:"v"`
	N          int    `json:"n"`
	Strict     bool   `json:"strict"`
	AllowArray bool   `json:"allowArray"`
	P          string `json:"p"`
	Out        string `json:"out"`
}
type KindCell struct{ Kind, P, Out string }
type PosCell struct {
	N   int    `json:"n"`
	P   string `json:"p"`
	Out string `json:"out"`
}
type NamesCell struct {
	N      int    `json:"n"`
	NNames int    `json:"nnames"`
	Out    string `json:"out"`
}
type ArgsCell struct {
	Len int    `json:"len"`
	P   string `json:"p"`
	Out string `json:"out"`
}
type ObjCell struct{ P, Out string }
type Table struct {
	Sigs  []SigCell   `json:"sigs"`
	Wrap  []WrapCell  `json:"wrap"`
	Kinds []KindCell  `json:"kinds"`
	Pos   []PosCell   `json:"pos"`
	Names []NamesCell `json:"names"`
	Args  []ArgsCell  `json:"args"`
	Obj   []ObjCell   `json:"obj"`
}

// ---- parameter types of the Wrap table --------------------------------------------------------
type S2 struct {
	A int    `json:"a"`
	B string `json:"b"`
}
type SMix struct {
	X int
	y int
	Z string `json:"-"`
	W bool   `json:"w,omitempty"`
}
type Inner struct {
	P int `json:"p"`
}
type SEmb struct{ Inner }
type SEmbTag struct {
	Inner `json:"in"`
}
type SNone struct {
	y int
	Z string `json:"-"`
}
type SDUF struct {
	A int    `json:"a"`
	B string `json:"b"`
}

func (SDUF) DisallowUnknownFields() {}

type SUnexpTag struct {
	A int
	b int `json:"b"`
	C int `json:"c"`
}

var (
	ctxType = reflect.TypeOf((*context.Context)(nil)).Elem()
	errType = reflect.TypeOf((*error)(nil)).Elem()
)

type violation struct {
	Property string `json:"property"`
	Cell     string `json:"cell"`
	Params   string `json:"params"`
	Why      string `json:"why"`
}
type result struct {
	Evaluations int            `json:"evaluations"`
	Cells       int            `json:"cells"`
	Classes     map[string]int `json:"classes"`
	Violations  []violation    `json:"violations"`
	Samples     []string       `json:"samples"`
}

func (r *result) add(prop string, cell any, params, why string) {
	if len(r.Violations) < 30 {
		cj, _ := json.Marshal(cell)
		r.Violations = append(r.Violations, violation{prop, string(cj), params, why})
	}
}

// litNull: mkReq("null") keeps the literal (see there).
var litNull bool

// mkReq builds a server-side request with the given params text ("" = absent).
func mkReq(params string) *jrpc2.Request {
	if params == "null" && litNull {
		// the wire parser folds a null params member into "absent"; a request built from a ParsedRequest (which is how a
		// proxy or a test hands one on) carries the literal, and encoding/json decodes it into the zero value all the same
		return (&jrpc2.ParsedRequest{ID: "1", Method: "m", Params: json.RawMessage("null")}).ToRequest()
	}
	txt := `{"jsonrpc":"2.0","id":1,"method":"m"}`
	if params != "" {
		txt = `{"jsonrpc":"2.0","id":1,"method":"m","params":` + params + `}`
	}
	prs, err := jrpc2.ParseRequests([]byte(txt))
	if err != nil || len(prs) != 1 || prs[0].Error != nil {
		panic(fmt.Sprintf("mkReq(%s): %v %v", params, err, prs))
	}
	return prs[0].ToRequest()
}

func callSafely(h jrpc2.Handler, req *jrpc2.Request) (v any, err error, p any) {
	defer func() { p = recover() }()
	v, err = h(context.Background(), req)
	return
}

func isInvalidParams(err error) bool {
	var je *jrpc2.Error
	return errors.As(err, &je) && je.Code == jrpc2.InvalidParams
}

// ---- 0. overlapping calls -----------------------------------------------------------------------
// Two calls of the same wrapped handler overlap: call A is held inside the decoding of its parameters (a
// json.Unmarshaler that waits) while call B runs to completion.  Each function invocation must receive its own
// decoded argument and its own context, whatever the other call does (a handler serves concurrent requests).
type gated struct {
	N    int
	Tail string
}

var gateEntered, gateRelease chan struct{}

func (g *gated) UnmarshalJSON(b []byte) error {
	var raw struct {
		N    int    `json:"n"`
		Tail string `json:"tail"`
	}
	if err := json.Unmarshal(b, &raw); err != nil {
		return err
	}
	g.N, g.Tail = raw.N, raw.Tail
	if g.N == 1 && gateEntered != nil {
		close(gateEntered)
		<-gateRelease
	}
	return nil
}

type ctxTag struct{}

func checkOverlap(prop string, res *result) {
	type obs struct {
		n   int
		tag any
	}
	mk := map[string]func(rec func(obs)) (jrpc2.Handler, string, string){
		"func(ctx, *T)": func(rec func(obs)) (jrpc2.Handler, string, string) {
			return handler.New(func(ctx context.Context, g *gated) (int, error) { rec(obs{g.N, ctx.Value(ctxTag{})}); return g.N, nil }), `{"n":1,"tail":"a"}`, `{"n":2,"tail":"b"}`
		},
		"func(ctx, T)": func(rec func(obs)) (jrpc2.Handler, string, string) {
			return handler.New(func(ctx context.Context, g gated) (int, error) { rec(obs{g.N, ctx.Value(ctxTag{})}); return g.N, nil }), `{"n":1,"tail":"a"}`, `{"n":2,"tail":"b"}`
		},
		"NewPos(func(ctx, T, string))": func(rec func(obs)) (jrpc2.Handler, string, string) {
			return handler.NewPos(func(ctx context.Context, g gated, s string) (int, error) {
				rec(obs{g.N, ctx.Value(ctxTag{})})
				return g.N, nil
			}, "g", "s"), `[{"n":1},"a"]`, `[{"n":2},"b"]`
		},
	}
	names := []string{"func(ctx, *T)", "func(ctx, T)"}
	if prop == "C16" {
		names = []string{"NewPos(func(ctx, T, string))"}
	}
	for _, name := range names {
		var mu sync.Mutex
		var seen []obs
		h, pa, pb := mk[name](func(o obs) { mu.Lock(); seen = append(seen, o); mu.Unlock() })
		gateEntered, gateRelease = make(chan struct{}), make(chan struct{})
		type ret struct {
			v   any
			err error
		}
		ra := make(chan ret, 1)
		go func() {
			v, err := h(context.WithValue(context.Background(), ctxTag{}, "A"), mkReq(pa))
			ra <- ret{v, err}
		}()
		select {
		case <-gateEntered:
		case <-time.After(10 * time.Second):
			res.add(prop, name, pa, "harness: call A never reached the decoder")
			continue
		}
		vb, eb := h(context.WithValue(context.Background(), ctxTag{}, "B"), mkReq(pb))
		close(gateRelease)
		a := <-ra
		gateEntered = nil
		res.Evaluations++
		res.Classes["overlap"]++
		mu.Lock()
		got := fmt.Sprint(seen)
		mu.Unlock()
		if eb != nil || a.err != nil || fmt.Sprint(vb) != "2" || fmt.Sprint(a.v) != "1" || (got != "[{2 B} {1 A}]") {
			res.add(prop, name, pa+" overlapping "+pb, fmt.Sprintf("call A returned (%v, %v), call B (%v, %v), the function saw (n, context) %s; want A: 1, B: 2, function calls [{2 B} {1 A}]", a.v, a.err, vb, eb, got))
		}
	}
}

// checkParallel: many invocations of ONE wrapped handler at the same time, each with values of its own in every position
// (array and object form): a wrapper that keeps anything per handler instead of per call hands one caller another's values.
// Nothing marks the moment between decoding and the call, so the schedule cannot be steered; the verdict is a value the
// function actually received, which is wrong whenever it happens (and the absence of one is no proof).
func checkParallel(prop string, res *result) {
	workers, rounds := 16, 4000
	if os.Getenv("VERIF_TIER") == "thorough" {
		rounds = 60000
	}
	type mk struct {
		name string
		h    jrpc2.Handler
		form func(n int, obj bool) string
	}
	var bad atomic.Int64
	var first atomic.Value
	chk := func(ctx context.Context, vals ...int) {
		want, _ := ctx.Value(ctxTag{}).(int)
		for _, v := range vals {
			if v != want {
				if bad.Add(1) == 1 {
					first.Store(fmt.Sprintf("function was called with %v, want every value %d", vals, want))
				}
				return
			}
		}
	}
	hs := []mk{
		{"NewPos(func(ctx, int x6))", handler.NewPos(func(ctx context.Context, a, b, c, d, e, f int) (int, error) {
			chk(ctx, a, b, c, d, e, f)
			return a, nil
		}, "a", "b", "c", "d", "e", "f"),
			func(n int, obj bool) string {
				if obj {
					return fmt.Sprintf(`{"a":%d,"b":%d,"c":%d,"d":%d,"e":%d,"f":%d}`, n, n, n, n, n, n)
				}
				return fmt.Sprintf(`[%d,%d,%d,%d,%d,%d]`, n, n, n, n, n, n)
			}},
		{"New(func(ctx, S3))", handler.New(func(ctx context.Context, v struct{ A, B, C int }) (int, error) {
			chk(ctx, v.A, v.B, v.C)
			return v.A, nil
		}),
			func(n int, obj bool) string {
				if obj {
					return fmt.Sprintf(`{"a":%d,"b":%d,"c":%d}`, n, n, n)
				}
				return fmt.Sprintf(`[%d,%d,%d]`, n, n, n)
			}},
		{"New(func(ctx, *S3))", handler.New(func(ctx context.Context, v *struct{ A, B, C int }) (int, error) {
			chk(ctx, v.A, v.B, v.C)
			return v.A, nil
		}),
			func(n int, obj bool) string {
				if obj {
					return fmt.Sprintf(`{"a":%d,"b":%d,"c":%d}`, n, n, n)
				}
				return fmt.Sprintf(`[%d,%d,%d]`, n, n, n)
			}},
	}
	if prop == "C16" {
		hs = hs[:1]
	} else {
		hs = hs[1:]
	}
	for _, m := range hs {
		bad.Store(0)
		var wg sync.WaitGroup
		var wrongRet atomic.Int64
		for w := 1; w <= workers; w++ {
			wg.Add(1)
			go func(w int) {
				defer wg.Done()
				ctx := context.WithValue(context.Background(), ctxTag{}, w)
				req := [2]*jrpc2.Request{mkReq(m.form(w, false)), mkReq(m.form(w, true))}
				for i := 0; i < rounds; i++ {
					v, err := m.h(ctx, req[i%2])
					if err != nil || fmt.Sprint(v) != fmt.Sprint(w) {
						wrongRet.Add(1)
					}
				}
			}(w)
		}
		wg.Wait()
		res.Evaluations += workers * rounds
		res.Classes["parallel"] += workers * rounds
		if n := bad.Load(); n > 0 {
			res.add(prop, m.name, m.form(1, false), fmt.Sprintf("%d of %d concurrent calls: %v", n, workers*rounds, first.Load()))
		} else if n := wrongRet.Load(); n > 0 {
			res.add(prop, m.name, m.form(1, false), fmt.Sprintf("%d of %d concurrent calls returned an error or another call's result", n, workers*rounds))
		}
	}
}

// ---- 1. signature grammar ----------------------------------------------------------------------
func checkSig(c SigCell, res *result) {
	var in []reflect.Type
	for i := 0; i < c.Nin; i++ {
		switch {
		case i == 0 && c.In0 == "ctx":
			in = append(in, ctxType)
		case i == 0:
			in = append(in, reflect.TypeOf(0))
		case i == 1:
			in = append(in, reflect.TypeOf(S2{}))
		default:
			in = append(in, reflect.TypeOf(""))
		}
	}
	if c.Variadic {
		if c.Nin == 0 || (c.Nin == 1 && c.In0 == "ctx") {
			return // no such Go type
		}
		in[len(in)-1] = reflect.TypeOf([]int{})
	}
	var out []reflect.Type
	kinds := []string{c.O1, c.O2, "val"}
	for i := 0; i < c.Nout; i++ {
		if kinds[i] == "err" {
			out = append(out, errType)
		} else {
			out = append(out, reflect.TypeOf(0))
		}
	}
	ft := reflect.FuncOf(in, out, c.Variadic)
	calls := 0
	sentinel := errors.New("sentinel failure")
	fail := false
	fv := reflect.MakeFunc(ft, func(args []reflect.Value) []reflect.Value {
		calls++
		rs := make([]reflect.Value, len(out))
		for i, t := range out {
			if t == errType {
				if fail {
					rs[i] = reflect.ValueOf(&sentinel).Elem()
				} else {
					rs[i] = reflect.Zero(errType)
				}
			} else {
				rs[i] = reflect.ValueOf(42)
			}
		}
		return rs
	})
	res.Evaluations++
	fi, err := handler.Check(fv.Interface())
	if (err == nil) != c.Accept {
		res.add("C15", c, ft.String(), fmt.Sprintf("Check: err=%v, want accept=%v", err, c.Accept))
		return
	}
	if !c.Accept {
		// New must panic rather than produce a handler
		func() {
			defer func() {
				if recover() == nil {
					res.add("C15", c, ft.String(), "New did not panic for a signature Check rejects")
				}
			}()
			handler.New(fv.Interface())
		}()
		return
	}
	if (fi.Argument != nil) != c.HasArg || fi.ReportsError != c.ReportsError || (fi.Result != nil) != c.HasResult {
		res.add("C15", c, ft.String(), fmt.Sprintf("FuncInfo Argument=%v ReportsError=%v Result=%v", fi.Argument, fi.ReportsError, fi.Result))
		return
	}
	h := fi.Wrap()
	for _, f := range []bool{false, true} {
		fail, calls = f, 0
		params := ""
		if c.HasArg {
			params = `{"a":1}`
		}
		v, err, p := callSafely(h, mkReq(params))
		res.Evaluations++
		wantErr := f && c.ReportsError
		switch {
		case p != nil:
			res.add("C15", c, ft.String(), fmt.Sprintf("wrapper panicked: %v", p))
		case calls != 1:
			res.add("C15", c, ft.String(), fmt.Sprintf("function called %d times", calls))
		case wantErr && err != sentinel:
			res.add("C15", c, ft.String(), fmt.Sprintf("error %v, want the function's own error unchanged", err))
		case !wantErr && err != nil:
			res.add("C15", c, ft.String(), fmt.Sprintf("unexpected error %v", err))
		case !wantErr && c.HasResult && c.O1 == "val" && v != 42:
			res.add("C15", c, ft.String(), fmt.Sprintf("result %v, want 42 unchanged", v))
		case !wantErr && c.HasResult && c.O1 == "err" && v != nil:
			res.add("C15", c, ft.String(), fmt.Sprintf("result %v, want the nil error value unchanged", v))
		case !wantErr && !c.HasResult && v != nil:
			res.add("C15", c, ft.String(), fmt.Sprintf("result %v, want nil", v))
		}
	}
}

// ---- 2. struct-like parameters -------------------------------------------------------------------
type variant struct {
	fn     any      // func(ctx, T) (any, error) recording its argument
	names  []string // positional names, from the documented rule
	zero   func() any
	params map[string]string
}

var got []any

// derefAll follows pointers to the value they lead to; a nil pointer on the way stands for the zero value (a wrapper
// hands a pointer parameter a fresh zero value where encoding/json, decoding nothing, would leave nil: the same argument
// as far as the documented contract goes).
func derefAll(v reflect.Value) any {
	if !v.IsValid() {
		return nil // a nil interface value
	}
	for v.Kind() == reflect.Ptr {
		if v.IsNil() {
			t := v.Type()
			for t.Kind() == reflect.Ptr {
				t = t.Elem()
			}
			return reflect.Zero(t).Interface()
		}
		v = v.Elem()
	}
	return v.Interface()
}

// KS is reached only through two pointers (kind "ptrptr").
type KS struct{ A, B int }

func rec[T any](ctx context.Context, v T) (any, error) { got = append(got, v); return "done", nil }

func variants() map[string]variant {
	s2 := map[string]string{"objExact": `{"a":9007199254740993,"b":"x"}`, "objSubset": `{"b":"x"}`, "objUnknown": `{"a":7,"zzz":1}`, "objWrongType": `{"a":"str"}`,
		"arrN": `[9007199254740993,"x"]`, "arrNminus1": `[7]`, "arrNplus1": `[7,"x",1]`, "arrWrongType": `["s","x"]`, "arrWithNull": `[null,"x"]`, "arrEmpty": `[]`, "null": `null`}
	return map[string]variant{
		"S2":   {rec[S2], []string{"a", "b"}, func() any { return new(S2) }, s2},
		"PS2":  {rec[*S2], []string{"a", "b"}, func() any { return new(S2) }, s2},
		"SDUF": {rec[SDUF], []string{"a", "b"}, func() any { return new(SDUF) }, s2},
		"SMix": {rec[SMix], []string{"X", "w"}, func() any { return new(SMix) }, map[string]string{"objExact": `{"X":7,"w":true}`, "objSubset": `{"w":true}`,
			"objUnknown": `{"X":7,"zzz":1}`, "objWrongType": `{"X":"s"}`, "arrN": `[7,true]`, "arrNminus1": `[7]`, "arrNplus1": `[7,true,1]`,
			"arrWrongType": `["s",true]`, "arrWithNull": `[7,null]`, "arrEmpty": `[]`, "null": `null`}},
		"SEmb": {rec[SEmb], nil, func() any { return new(SEmb) }, map[string]string{"objExact": `{"p":7}`, "objSubset": `{}`, "objUnknown": `{"p":7,"zzz":1}`,
			"objWrongType": `{"p":"s"}`, "arrN": `[]`, "arrNplus1": `[7]`, "arrEmpty": `[]`, "null": `null`}},
		"SEmbTag": {rec[SEmbTag], []string{"in"}, func() any { return new(SEmbTag) }, map[string]string{"objExact": `{"in":{"p":7}}`, "objSubset": `{}`,
			"objUnknown": `{"in":{"p":7},"zzz":1}`, "objNestedUnknown": `{"in":{"p":7,"zzz":1}}`, "objWrongType": `{"in":5}`, "arrN": `[{"p":7}]`,
			"arrNminus1": `[]`, "arrNplus1": `[{"p":7},1]`, "arrWrongType": `[5]`, "arrWithNull": `[null]`, "arrEmpty": `[]`, "null": `null`}},
		"SUnexpTag": {rec[SUnexpTag], []string{"A", "c"}, func() any { return new(SUnexpTag) }, map[string]string{"objExact": `{"A":11,"c":22}`, "objSubset": `{"c":22}`,
			"objUnknown": `{"A":11,"zzz":1}`, "objWrongType": `{"A":"s"}`, "arrN": `[11,22]`, "arrNminus1": `[11]`, "arrNplus1": `[11,22,33]`,
			"arrWrongType": `["s",22]`, "arrWithNull": `[null,22]`, "arrEmpty": `[]`, "null": `null`}},
		"SNone": {rec[SNone], nil, func() any { return new(SNone) }, map[string]string{"objExact": `{}`, "objSubset": `{}`, "objUnknown": `{"zzz":1}`,
			"arrN": `[]`, "arrNplus1": `[1]`, "arrEmpty": `[]`, "null": `null`}},
	}
}

// expectValue decodes params into a fresh value the way the documentation says: an array is mapped to the
// positional names, then encoding/json decodes (rejecting unknown fields when strict).
func expectValue(params string, names []string, target any, strict bool) error {
	data := []byte(params)
	if params == "" || params == "null" {
		return nil
	}
	if t := bytes.TrimSpace(data); len(t) > 0 && t[0] == '[' && len(names) > 0 {
		var arr []json.RawMessage
		if err := json.Unmarshal(data, &arr); err != nil {
			return err
		}
		if len(arr) != len(names) {
			return fmt.Errorf("length")
		}
		obj := map[string]json.RawMessage{}
		for i, n := range names {
			obj[n] = arr[i]
		}
		data, _ = json.Marshal(obj)
	}
	dec := json.NewDecoder(bytes.NewReader(data))
	if strict {
		dec.DisallowUnknownFields()
	}
	return dec.Decode(target)
}

func checkWrap(c WrapCell, vs map[string]variant, res *result) {
	if c.Out == "na" {
		return
	}
	if c.P == "null" && !litNull {
		litNull = true
		checkWrap(c, vs, res)
		litNull = false
	}
	v := vs[c.V]
	params, ok := v.params[c.P]
	if c.P == "absent" {
		params, ok = "", true
	}
	if !ok {
		return
	}
	fi, err := handler.Check(v.fn)
	if err != nil {
		res.add("C15", c, params, "Check rejected a documented signature: "+err.Error())
		return
	}
	for _, prior := range []string{"", "objExact", "objWrongType", "objUnknown", "arrWrongType"} {
		h := fi.SetStrict(c.Strict).AllowArray(c.AllowArray).Wrap()
		if prior != "" {
			// Wrap takes a snapshot of the settings: re-using the FuncInfo for another handler with the opposite settings
			// afterwards does not change the handler already made
			_ = fi.SetStrict(!c.Strict).AllowArray(!c.AllowArray).Wrap()
		}
		hist := ""
		if prior != "" { // the same handler first serves another request (accepted or rejected): it must leave no trace
			pp, ok := v.params[prior]
			if !ok {
				continue
			}
			if _, _, pn := callSafely(h, mkReq(pp)); pn != nil {
				res.add("C15", c, pp, fmt.Sprintf("wrapper panicked: %v", pn))
			}
			hist = " (after the same handler served " + pp + ")"
			res.Classes["wrap/with-history"]++
		}
		got = nil
		_, herr, p := callSafely(h, mkReq(params))
		res.Evaluations++
		res.Classes["wrap/"+c.Out]++
		switch {
		case p != nil:
			res.add("C15", c, params, fmt.Sprintf("wrapper panicked: %v", p))
		case c.Out == "invalid":
			if len(got) != 0 {
				res.add("C15", c, params, fmt.Sprintf("function was called with %+v, want InvalidParams without a call", got[0]))
			} else if !isInvalidParams(herr) {
				res.add("C15", c, params, fmt.Sprintf("error %v, want InvalidParams", herr))
			}
		case c.Out == "called":
			if herr != nil || len(got) != 1 {
				res.add("C15", c, params, fmt.Sprintf("err=%v, %d calls; want exactly one call", herr, len(got)))
				return
			}
			want := v.zero()
			strict := c.Strict || c.V == "SDUF"
			if err := expectValue(params, v.names, want, strict); err != nil {
				res.add("C15", c, params, "reference decoding disagrees with the table (harness inconsistency): "+err.Error())
				return
			}
			g := reflect.ValueOf(got[0])
			if g.Kind() == reflect.Ptr {
				g = g.Elem()
			}
			if !reflect.DeepEqual(g.Interface(), reflect.ValueOf(want).Elem().Interface()) {
				res.add("C15", c, params, fmt.Sprintf("function received %+v, encoding/json decodes %+v%s", g.Interface(), reflect.ValueOf(want).Elem().Interface(), hist))
			}
		}
	}
}

// ---- non-struct kinds -----------------------------------------------------------------------------
func checkKind(c KindCell, res *result) {
	gen := map[string]string{"objExact": `{"a":7,"b":8}`, "objSubset": `{"b":8}`, "objUnknown": `{"a":7,"zzz":1}`, "objNestedUnknown": `{"a":{"zzz":1}}`,
		"objWrongType": `{"a":"str"}`, "arrN": `[7,8]`, "arrNminus1": `[7]`, "arrNplus1": `[7,8,9]`, "arrWrongType": `["s","x"]`, "arrWithNull": `[null,7]`,
		"arrEmpty": `[]`, "null": `null`, "absent": ``}
	params := gen[c.P]
	type kd struct {
		fn   any
		zero func() any
	}
	kinds := map[string]kd{
		"int": {rec[int], func() any { return new(int) }}, "string": {rec[string], func() any { return new(string) }},
		"slice": {rec[[]int], func() any { return new([]int) }}, "array1": {rec[[1]string], func() any { return new([1]string) }},
		"map": {rec[map[string]int], func() any { return new(map[string]int) }}, "raw": {rec[json.RawMessage], func() any { return new(json.RawMessage) }},
		"iface":  {rec[any], func() any { return new(any) }},
		"ptrptr": {rec[**KS], func() any { return new(**KS) }}, "ptrint": {rec[*int], func() any { return new(*int) }},
		"ptrslice": {rec[*[]int], func() any { return new(*[]int) }},
	}
	for _, strict := range []bool{false, true} {
		got = nil
		var h jrpc2.Handler
		noneCalls := 0
		var reqSeen *jrpc2.Request
		switch c.Kind {
		case "none":
			fi, _ := handler.Check(func(ctx context.Context) (string, error) { noneCalls++; return "n", nil })
			h = fi.SetStrict(strict).Wrap()
		case "req":
			fi, _ := handler.Check(func(ctx context.Context, r *jrpc2.Request) (any, error) { reqSeen = r; return "r", nil })
			h = fi.SetStrict(strict).Wrap()
		default:
			fi, err := handler.Check(kinds[c.Kind].fn)
			if err != nil {
				res.add("C15", c, params, "Check rejected a documented signature: "+err.Error())
				return
			}
			h = fi.SetStrict(strict).AllowArray(!strict).Wrap()
		}
		req := mkReq(params)
		_, herr, p := callSafely(h, req)
		res.Evaluations++
		res.Classes["kind/"+c.Out]++
		if p != nil {
			res.add("C15", c, params, fmt.Sprintf("wrapper panicked: %v", p))
			return
		}
		switch c.Kind {
		case "none":
			if (c.Out == "called") != (noneCalls == 1 && herr == nil) || (c.Out == "invalid" && !isInvalidParams(herr)) {
				res.add("C15", c, params, fmt.Sprintf("calls=%d err=%v, want %s", noneCalls, herr, c.Out))
			}
		case "req":
			if reqSeen != req || herr != nil {
				res.add("C15", c, params, fmt.Sprintf("function saw request %p (want %p), err=%v", reqSeen, req, herr))
			}
		default:
			want := kinds[c.Kind].zero()
			var jerr error
			if params != "" && params != "null" {
				dec := json.NewDecoder(strings.NewReader(params))
				if strict { // (matters for a struct reached through pointers only)
					dec.DisallowUnknownFields()
				}
				jerr = dec.Decode(want)
			}
			if c.Kind == "raw" {
				jerr = nil
				if params != "" && params != "null" {
					*(want.(*json.RawMessage)) = json.RawMessage(params)
				}
			}
			if jerr != nil {
				if len(got) != 0 || !isInvalidParams(herr) {
					res.add("C15", c, params, fmt.Sprintf("encoding/json rejects these params (%v) but calls=%d err=%v", jerr, len(got), herr))
				}
			} else if herr != nil || len(got) != 1 {
				res.add("C15", c, params, fmt.Sprintf("encoding/json accepts these params but calls=%d err=%v", len(got), herr))
			} else if g, w := derefAll(reflect.ValueOf(got[0])), derefAll(reflect.ValueOf(want).Elem()); !reflect.DeepEqual(g, w) {
				res.add("C15", c, params, fmt.Sprintf("function received %#v, encoding/json decodes %#v", g, w))
			}
		}
	}
}

// ---- 3. Positional ---------------------------------------------------------------------------------
var posKinds = []struct {
	t     reflect.Type
	good  string
	wrong string
	alt   string // another good value (for the requests that precede the judged one on the same handler)
}{
	// values chosen so that they do not survive a detour through float64 / generic decoding
	{reflect.TypeOf(int64(0)), `9007199254740993`, `"s"`, `42`}, {reflect.TypeOf(""), `"x"`, `5`, `"alt"`},
	{reflect.TypeOf(json.RawMessage(nil)), `{"b":1,"a":0.10000000000000000001}`, ``, `[1]`}, {reflect.TypeOf(uint64(0)), `18446744073709551615`, `-1`, `7`},
	{reflect.TypeOf(false), `true`, `"s"`, `true`}, {reflect.TypeOf(S2{}), `{"a":9223372036854775807,"b":"y"}`, `5`, `{"a":1,"b":"q"}`},
}

// posPriors are requests served by the same handler before the judged one: an accepted one and two that are
// rejected after part of them has been decoded.  A handler has no memory: the judged outcome must not depend on them.
func posPriors(n int, names []string) []string {
	alt := make([]string, n)
	var kv []string
	for i := range alt {
		alt[i] = posKinds[i%len(posKinds)].alt
		kv = append(kv, fmt.Sprintf("%q:%s", names[i], alt[i]))
	}
	out := []string{"\x00none", "[" + strings.Join(alt, ",") + "]", "{" + strings.Join(kv, ",") + `,"zzz":1}`}
	for at := n - 1; at >= 0; at-- {
		if w := posKinds[at%len(posKinds)].wrong; w != "" {
			bad := append([]string(nil), alt...)
			bad[at] = w
			out = append(out, "["+strings.Join(bad, ",")+"]")
			break
		}
	}
	return out
}

func checkPos(c PosCell, res *result) {
	if c.Out == "na" || c.N == 0 {
		return
	}
	n := c.N
	in := []reflect.Type{ctxType}
	var names []string
	for i := 0; i < n; i++ {
		in = append(in, posKinds[i%len(posKinds)].t)
		names = append(names, fmt.Sprintf("p%d", i+1))
	}
	var seen [][]reflect.Value
	fv := reflect.MakeFunc(reflect.FuncOf(in, []reflect.Type{reflect.TypeOf(0), errType}, false), func(args []reflect.Value) []reflect.Value {
		seen = append(seen, args[1:])
		return []reflect.Value{reflect.ValueOf(11), reflect.Zero(errType)}
	})
	for at := 0; at < n; at++ { // position of the null / wrong element, or of the dropped name
		if at > 0 && !strings.Contains(c.P, "At") && c.P != "objSubset" && c.P != "objWrongType" {
			break
		}
		if (c.P == "arrWrongAt" || c.P == "objWrongType") && posKinds[at%len(posKinds)].wrong == "" {
			continue // raw JSON accepts any value: there is no wrong type at this position
		}
		elems := make([]string, n)
		for i := range elems {
			elems[i] = posKinds[i%len(posKinds)].good
		}
		isNull := make([]bool, n)
		missing := make([]bool, n)
		var params string
		arr := func(e []string) string { return "[" + strings.Join(e, ",") + "]" }
		obj := func(skip int, extra string) string {
			var kv []string
			for i, e := range elems {
				if i == skip {
					missing[i] = true
					continue
				}
				kv = append(kv, fmt.Sprintf("%q:%s", names[i], e))
			}
			if extra != "" {
				kv = append(kv, extra)
			}
			return "{" + strings.Join(kv, ",") + "}"
		}
		switch c.P {
		case "absent":
			params = ""
			for i := range missing {
				missing[i] = true
			}
		case "arrN":
			params = arr(elems)
		case "arrNminus1":
			params = arr(elems[:n-1])
		case "arrNplus1":
			params = arr(append(append([]string{}, elems...), `1`))
		case "arrEmpty":
			params = `[]`
		case "arrNullAt":
			elems[at], isNull[at] = `null`, true
			params = arr(elems)
		case "arrWrongAt":
			elems[at] = posKinds[at%len(posKinds)].wrong
			params = arr(elems)
		case "objAll":
			params = obj(-1, "")
		case "objSubset":
			params = obj(at, "")
		case "objSuperset":
			params = obj(-1, `"zzz":1`)
		case "objWrongType":
			elems[at] = posKinds[at%len(posKinds)].wrong
			params = obj(-1, "")
		case "objEmpty":
			params = `{}`
			for i := range missing {
				missing[i] = true
			}
		}
		for pi, prior := range posPriors(n, names) {
			for _, ctor := range []string{"Positional", "NewPos"} {
				var h jrpc2.Handler
				if ctor == "Positional" {
					fi, err := handler.Positional(fv.Interface(), names...)
					if err != nil {
						res.add("C16", c, params, "Positional rejected n names for n arguments: "+err.Error())
						return
					}
					h = fi.Wrap()
				} else {
					h = handler.NewPos(fv.Interface(), names...)
				}
				if pi > 0 {
					if _, _, pp := callSafely(h, mkReq(prior)); pp != nil {
						res.add("C16", c, prior, fmt.Sprintf("wrapper panicked: %v", pp))
					}
					res.Classes["pos/with-history"]++
				}
				seen = nil
				v, herr, p := callSafely(h, mkReq(params))
				res.Evaluations++
				res.Classes["pos/"+c.Out]++
				switch {
				case p != nil:
					res.add("C16", c, params, fmt.Sprintf("wrapper panicked: %v", p))
				case c.Out == "invalid":
					if len(seen) != 0 {
						res.add("C16", c, params, "function was called, want InvalidParams without a call")
					} else if !isInvalidParams(herr) {
						res.add("C16", c, params, fmt.Sprintf("error %v, want InvalidParams", herr))
					}
				case c.Out == "called":
					if herr != nil || len(seen) != 1 || v != 11 {
						res.add("C16", c, params, fmt.Sprintf("err=%v result=%v calls=%d; want one call and its result unchanged", herr, v, len(seen)))
						continue
					}
					for i, a := range seen[0] {
						want := reflect.New(in[i+1])
						if !missing[i] { // a null element is decoded like any other (encoding/json leaves most types at zero for null)
							if err := json.Unmarshal([]byte(elems[i]), want.Interface()); err != nil {
								res.add("C16", c, params, "harness: "+err.Error())
							}
						}
						if !reflect.DeepEqual(a.Interface(), want.Elem().Interface()) {
							hist := ""
							if pi > 0 {
								hist = " (after the same handler served " + prior + ")"
							}
							res.add("C16", c, params, fmt.Sprintf("argument %d: got %#v, want %#v%s", i+1, a.Interface(), want.Elem().Interface(), hist))
						}
					}
				}
			}
		}
	}
}

// checkTagForms: which fields of a struct parameter take part in the array mapping is what encoding/json says about
// their tags: `json:"-"` is left out, `json:"-,"` is a field with the key "-", an untagged or
// option-only tag keeps the field's name, unexported fields are out.
type tagForms struct {
	A     int    `json:"a"`
	Dash  string `json:"-,"`
	Skip  int    `json:"-"`
	B     int    `json:"b,omitempty"`
	Plain bool
	Opt   string `json:",omitempty"`
	hid   int
}

func checkTagForms(res *result) {
	var got []tagForms
	h := handler.New(func(_ context.Context, v tagForms) (int, error) { got = append(got, v); return v.A, nil })
	for _, c := range []struct {
		params string
		want   *tagForms
	}{
		{`[1,"x",2,true,"o"]`, &tagForms{A: 1, Dash: "x", B: 2, Plain: true, Opt: "o"}},
		{`[1,2,true,"o"]`, nil}, {`[1,"x",2,true]`, nil}, {`[1,"x",7,2,true,"o"]`, nil},
		{`{"a":1,"-":"x","b":2,"Plain":true,"Opt":"o"}`, &tagForms{A: 1, Dash: "x", B: 2, Plain: true, Opt: "o"}},
	} {
		got = nil
		_, herr, p := callSafely(h, mkReq(c.params))
		res.Evaluations++
		res.Classes["tagforms"]++
		cell := "struct with every form of json tag"
		switch {
		case p != nil:
			res.add("C15", cell, c.params, fmt.Sprintf("wrapper panicked: %v", p))
		case c.want == nil && (len(got) != 0 || !isInvalidParams(herr)):
			res.add("C15", cell, c.params, fmt.Sprintf("err=%v, %d calls; want InvalidParams without a call (five fields take part in the mapping)", herr, len(got)))
		case c.want != nil && (herr != nil || len(got) != 1 || got[0] != *c.want):
			res.add("C15", cell, c.params, fmt.Sprintf("err=%v, function received %+v; want one call with %+v", herr, got, *c.want))
		}
	}
}

// checkStrictNested: where unknown fields are refused they are refused at every depth - also inside the elements of a
// params array (which become the values of the rewritten object verbatim), for each way strictness comes about:
// SetStrict, a DisallowUnknownFields method on the parameter type, Positional.
type nInner struct {
	X  int           `json:"x"`
	Ys []nY          `json:"ys"`
	P  *nY           `json:"p"`
	M  map[string]nY `json:"m"`
}
type nY struct {
	Y int `json:"y"`
}
type nOuter struct {
	In nInner `json:"in"`
	N  int    `json:"n"`
}
type nOuterD nOuter

func (nOuterD) DisallowUnknownFields() {}

func checkStrictNested(prop string, res *result) {
	calls := 0
	hs := map[string]jrpc2.Handler{}
	if prop == "C15" {
		fi, _ := handler.Check(func(_ context.Context, v nOuter) (int, error) { calls++; return v.N, nil })
		hs["strict"] = fi.SetStrict(true).Wrap()
		fi2, _ := handler.Check(func(_ context.Context, v nOuter) (int, error) { calls++; return v.N, nil })
		hs["lax"] = fi2.Wrap()
		hs["method"] = handler.New(func(_ context.Context, v nOuterD) (int, error) { calls++; return v.N, nil })
		hs["method-ptr"] = handler.New(func(_ context.Context, v *nOuterD) (int, error) { calls++; return v.N, nil })
	} else {
		hs["positional"] = handler.NewPos(func(_ context.Context, in nInner, n int) (int, error) { calls++; return n, nil }, "in", "n")
	}
	// (bad: an unknown field somewhere inside; wrong: a value of the wrong type somewhere inside - refused by every handler)
	inners := []struct {
		text  string
		bad   bool
		wrong bool
	}{{`{"x":1}`, false, false}, {`{"x":1,"zzz":2}`, true, false}, {`{"x":1,"ys":[{"y":1},{"y":2,"zzz":0}]}`, true, false}, {`{"p":{"y":1,"q":null}}`, true, false},
		{`{"m":{"k":{"y":1,"zzz":[]}}}`, true, false}, {`{"ys":[],"p":null,"m":{}}`, false, false},
		{`{"x":"one"}`, false, true}, {`{"x":1,"ys":[{"y":true}]}`, false, true}, {`{"p":{"y":[2]}}`, false, true}, {`{"m":{"k":{"y":"1"}}}`, false, true}, {`{"ys":{"y":1}}`, false, true}}
	for name, h := range hs {
		for _, in := range inners {
			for _, form := range []string{"array", "object"} {
				params := fmt.Sprintf(`[%s, 4]`, in.text)
				if form == "object" {
					params = fmt.Sprintf(`{"in": %s, "n": 4}`, in.text)
				}
				calls = 0
				v, herr, p := callSafely(h, mkReq(params))
				res.Evaluations++
				res.Classes["nested/"+name]++
				cell := "nested unknown field / wrong type, handler " + name + ", " + form + " form"
				refuse := (in.bad && name != "lax") || in.wrong
				switch {
				case p != nil:
					res.add(prop, cell, params, fmt.Sprintf("wrapper panicked: %v", p))
				case refuse && (calls != 0 || !isInvalidParams(herr)):
					res.add(prop, cell, params, fmt.Sprintf("err=%v, %d calls; want InvalidParams without a call", herr, calls))
				case !refuse && (herr != nil || calls != 1 || fmt.Sprint(v) != "4"):
					res.add(prop, cell, params, fmt.Sprintf("(%v, %v), %d calls; want one call returning 4", v, herr, calls))
				}
			}
		}
	}
}

// checkPosRewrap: a handler is what its FuncInfo said when Wrap was called. The setters return their receiver, so a
// second variant built from the same FuncInfo (fi.SetStrict(false).Wrap(), fi.AllowArray(false).Wrap()) changes the
// FuncInfo - and must not change the handler that exists already (arrays of n elements, objects with the given names
// only: that is what Positional promised for it).
func checkPosRewrap(res *result) {
	for variant := 0; variant < 3; variant++ {
		calls := 0
		var last [2]int
		fi, err := handler.Positional(func(_ context.Context, a, b int) (int, error) { calls++; last = [2]int{a, b}; return a + b, nil }, "a", "b")
		if err != nil {
			res.add("C16", "Positional, re-wrapped", "", "Positional rejected a documented signature: "+err.Error())
			return
		}
		h := fi.Wrap()
		switch variant {
		case 0:
			_ = fi.SetStrict(false).Wrap()
		case 1:
			_ = fi.AllowArray(false).Wrap()
		case 2:
			_ = fi.SetStrict(false).AllowArray(false).Wrap()
		}
		for _, c := range []struct {
			params string
			ok     bool
		}{{`[5,3]`, true}, {`{"a":5,"b":3}`, true}, {`{"a":5,"b":3,"zzz":1}`, false}, {`[5]`, false}, {`{"a":5}`, true}} {
			calls = 0
			v, herr, p := callSafely(h, mkReq(c.params))
			res.Evaluations++
			res.Classes["pos/rewrap"]++
			cell := fmt.Sprintf("Positional(func(ctx, a, b int)), FuncInfo reconfigured after Wrap (variant %d)", variant)
			switch {
			case p != nil:
				res.add("C16", cell, c.params, fmt.Sprintf("wrapper panicked: %v", p))
			case c.ok && (herr != nil || calls != 1):
				res.add("C16", cell, c.params, fmt.Sprintf("err=%v, %d calls; want exactly one call", herr, calls))
			case c.ok && c.params != `{"a":5}` && (last != [2]int{5, 3} || fmt.Sprint(v) != "8"):
				res.add("C16", cell, c.params, fmt.Sprintf("function saw %v and the handler returned %v", last, v))
			case !c.ok && (calls != 0 || !isInvalidParams(herr)):
				res.add("C16", cell, c.params, fmt.Sprintf("err=%v, %d calls; want InvalidParams without a call", herr, calls))
			}
		}
	}
}

// checkPosInterfaces: arguments of interface kind (any, []any, map[string]any) receive what encoding/json decodes from their
// element into a variable of that type - numbers as float64 included - in the array form and in the keyed form alike.
func checkPosInterfaces(res *result) {
	type seen struct {
		A any
		B []any
		C map[string]any
		D int
	}
	var last seen
	calls := 0
	fi, err := handler.Positional(func(_ context.Context, a any, b []any, c map[string]any, d int) (bool, error) {
		calls++
		last = seen{a, b, c, d}
		return true, nil
	}, "a", "b", "c", "d")
	if err != nil {
		res.add("C16", "Positional, interface kinds", "", "Positional rejected a documented signature: "+err.Error())
		return
	}
	h := fi.Wrap()
	names := []string{"a", "b", "c", "d"}
	for _, el := range [][]string{
		{`3`, `[1,2.5,"x"]`, `{"k":7,"n":[1]}`, `4`},
		{`"s"`, `[]`, `{}`, `0`},
		{`{"x":1e3}`, `[[1],[{"y":2}]]`, `{"k":null}`, `-1`},
		{`null`, `null`, `null`, `null`},
		{`9007199254740993`, `[9007199254740993,true]`, `{"k":9007199254740993}`, `5`},
		{`[0.1,{"z":[2]}]`, `[null]`, `{"a":{"b":{"c":12}}}`, `12`},
	} {
		var want seen
		for i, dst := range []any{&want.A, &want.B, &want.C, &want.D} {
			if e := json.Unmarshal([]byte(el[i]), dst); e != nil {
				res.add("C16", "Positional, interface kinds", el[i], "harness: reference decoding failed: "+e.Error())
			}
		}
		var kv []string
		for i, n := range names {
			kv = append(kv, fmt.Sprintf("%q:%s", n, el[i]))
		}
		for _, params := range []string{"[" + strings.Join(el, ",") + "]", "{" + strings.Join(kv, ",") + "}"} {
			calls, last = 0, seen{}
			_, herr, p := callSafely(h, mkReq(params))
			res.Evaluations++
			res.Classes["pos/interface-kinds"]++
			cell := "Positional(func(ctx, a any, b []any, c map[string]any, d int))"
			switch {
			case p != nil:
				res.add("C16", cell, params, fmt.Sprintf("wrapper panicked: %v", p))
			case herr != nil || calls != 1:
				res.add("C16", cell, params, fmt.Sprintf("err=%v, %d calls; want exactly one call", herr, calls))
			case !reflect.DeepEqual(last, want):
				res.add("C16", cell, params, fmt.Sprintf("function saw %#v; encoding/json decodes the elements into %#v", last, want))
			}
		}
	}
}

// checkPosUnnamed: name lists with a slot that has no name ("" or "-": such an argument cannot be given by key).  The exact
// length rule of the array form is about the n arguments, not about the names that happen to be usable as keys; the object
// form knows the remaining names only.  (What an array of exactly n elements does in the presence of such a slot is
// documented nowhere and not judged.)
func checkPosUnnamed(res *result) {
	for n := 2; n <= 3; n++ {
		for at := 0; at < n; at++ {
			for _, blank := range []string{"-", ""} {
				in := []reflect.Type{ctxType}
				names := make([]string, n)
				for i := 0; i < n; i++ {
					in = append(in, reflect.TypeOf(int64(0)))
					names[i] = fmt.Sprintf("p%d", i+1)
				}
				names[at] = blank
				var seen [][]reflect.Value
				fv := reflect.MakeFunc(reflect.FuncOf(in, []reflect.Type{reflect.TypeOf(0), errType}, false), func(args []reflect.Value) []reflect.Value {
					seen = append(seen, args[1:])
					return []reflect.Value{reflect.ValueOf(11), reflect.Zero(errType)}
				})
				fi, err := handler.Positional(fv.Interface(), names...)
				if err != nil {
					continue // a constructor that refuses such lists is fine
				}
				h := fi.Wrap()
				elems := []string{"41", "42", "43"}[:n]
				var kv []string
				for i := 0; i < n; i++ {
					if i != at {
						kv = append(kv, fmt.Sprintf("%q:%s", names[i], elems[i]))
					}
				}
				cases := []struct{ params, want string }{
					{"[" + strings.Join(elems[:n-1], ",") + "]", "invalid"},
					{"[" + strings.Join(append(append([]string{}, elems...), "44"), ",") + "]", "invalid"},
					{"[]", "invalid"},
					{"[null]", map[bool]string{true: "invalid", false: "invalid"}[n > 1]},
					{"{" + strings.Join(kv, ",") + "}", "called"},
					{"{" + strings.Join(append(append([]string{}, kv...), `"-":7`), ",") + "}", "invalid"},
					{"{}", "called"},
				}
				for _, c := range cases {
					seen = nil
					_, herr, p := callSafely(h, mkReq(c.params))
					res.Evaluations++
					res.Classes["pos/unnamed-slot"]++
					cell := fmt.Sprintf("Positional names %q", names)
					switch {
					case p != nil:
						res.add("C16", cell, c.params, fmt.Sprintf("wrapper panicked: %v", p))
					case c.want == "invalid" && (len(seen) != 0 || !isInvalidParams(herr)):
						res.add("C16", cell, c.params, fmt.Sprintf("err=%v, %d calls; want InvalidParams without a call (%d arguments)", herr, len(seen), n))
					case c.want == "called":
						if herr != nil || len(seen) != 1 {
							res.add("C16", cell, c.params, fmt.Sprintf("err=%v, %d calls; want one call", herr, len(seen)))
							continue
						}
						for i, a := range seen[0] {
							want := int64(0)
							if i != at && c.params != "{}" {
								want = int64(41 + i)
							}
							if a.Int() != want {
								res.add("C16", cell, c.params, fmt.Sprintf("argument %d: got %d, want %d", i+1, a.Int(), want))
							}
						}
					}
				}
			}
		}
	}
}

func checkNames(c NamesCell, res *result) {
	in := []reflect.Type{ctxType}
	for i := 0; i < c.N; i++ {
		in = append(in, posKinds[i%len(posKinds)].t)
	}
	fv := reflect.MakeFunc(reflect.FuncOf(in, []reflect.Type{errType}, false), func(args []reflect.Value) []reflect.Value {
		return []reflect.Value{reflect.Zero(errType)}
	})
	var names []string
	for i := 0; i < c.NNames; i++ {
		names = append(names, fmt.Sprintf("q%d", i+1))
	}
	var err error
	var p any
	func() {
		defer func() { p = recover() }()
		_, err = handler.Positional(fv.Interface(), names...)
	}()
	res.Evaluations++
	switch {
	case p != nil:
		res.add("C16", c, fmt.Sprint(names), fmt.Sprintf("Positional panicked: %v", p))
	case c.Out == "error" && err == nil:
		res.add("C16", c, fmt.Sprint(names), "Positional accepted a name list of the wrong length")
	case c.Out != "error" && err != nil:
		res.add("C16", c, fmt.Sprint(names), "Positional rejected: "+err.Error())
	}
	// odd name lists ("", "-", duplicates) are observed, not judged - except that nothing may panic
	if c.N >= 1 && c.NNames == c.N {
		for _, odd := range []string{"", "-", "q1"} {
			nn := append([]string{}, names...)
			nn[len(nn)-1] = odd
			func() {
				defer func() {
					if p := recover(); p != nil {
						res.add("C16", c, fmt.Sprint(nn), fmt.Sprintf("panic with an odd name list: %v", p))
					}
				}()
				if fi, err := handler.Positional(fv.Interface(), nn...); err == nil {
					callSafelyNoPanic(fi.Wrap(), res, c, nn)
				}
			}()
		}
	}
}

func callSafelyNoPanic(h jrpc2.Handler, res *result, c any, nn []string) {
	for _, params := range []string{``, `[]`, `[1]`, `{}`, `{"q1":1}`, `[1,"x",true,[1],{"a":1},2]`} {
		if _, _, p := callSafely(h, mkReq(params)); p != nil {
			res.add("C16", c, params, fmt.Sprintf("handler built with names %q panicked: %v", nn, p))
		}
		res.Evaluations++
	}
}

// ---- 4. Args and Obj ---------------------------------------------------------------------------------
// checkArgsElementwise: after Args has decoded an array, every slot looks exactly as json.Unmarshal(element i, target i)
// would have left it - targets of every kind (scalars, pointers, slices, maps, interfaces, raw messages, types with an
// UnmarshalJSON of their own), holding a value beforehand, and every element in turn spelled as null.
type nullCounter struct {
	Calls int
	Last  string
}

func (n *nullCounter) UnmarshalJSON(b []byte) error { n.Calls++; n.Last = string(b); return nil }

// checkResultTypes: only the type error itself is an error result. A function whose single result is of a concrete
// type that happens to have an Error method returns a value: the wrapper hands it back as the result, unchanged,
// with a nil error (one and two results, with and without a parameter).
type statusVal struct{ Code int }

func (s statusVal) Error() string { return fmt.Sprint("status ", s.Code) }

func checkResultTypes(res *result) {
	type tc struct {
		name string
		fn   any
		want any
	}
	var nilErr *jrpc2.Error
	cases := []tc{
		{"func(ctx) statusVal", func(context.Context) statusVal { return statusVal{3} }, statusVal{3}},
		{"func(ctx, int) statusVal", func(_ context.Context, n int) statusVal { return statusVal{n} }, statusVal{0}},
		{"func(ctx) *jrpc2.Error (nil)", func(context.Context) *jrpc2.Error { return nilErr }, nilErr},
		{"func(ctx) *jrpc2.Error", func(context.Context) *jrpc2.Error { return jrpc2.Errorf(5, "five") }, jrpc2.Errorf(5, "five")},
		{"func(ctx) (statusVal, error)", func(context.Context) (statusVal, error) { return statusVal{4}, nil }, statusVal{4}},
		{"func(ctx) *statusVal", func(context.Context) *statusVal { return &statusVal{6} }, &statusVal{6}},
	}
	for _, c := range cases {
		res.Evaluations++
		res.Classes["resulttype"]++
		fi, err := handler.Check(c.fn)
		if err != nil {
			res.add("C15", c.name, "", "Check rejected a documented signature: "+err.Error())
			continue
		}
		wantT := reflect.TypeOf(c.fn).Out(0)
		twoRes := reflect.TypeOf(c.fn).NumOut() == 2
		if fi.ReportsError != twoRes || fi.Result != wantT {
			res.add("C15", c.name, "", fmt.Sprintf("FuncInfo says ReportsError=%v Result=%v; the function has result type %v and %s", fi.ReportsError, fi.Result, wantT, map[bool]string{true: "an error result", false: "no error result"}[twoRes]))
		}
		v, herr, p := callSafely(fi.Wrap(), mkReq(""))
		if p != nil {
			res.add("C15", c.name, "", fmt.Sprintf("wrapper panicked: %v", p))
		} else if herr != nil || !reflect.DeepEqual(v, c.want) {
			res.add("C15", c.name, "", fmt.Sprintf("the wrapper returned (%#v, %v); the function returned %#v and no error", v, herr, c.want))
		}
	}
}

func checkArgsElementwise(res *result) {
	seven := 7
	mk := func() []any {
		i := 1
		pi := &seven
		sl := []string{"old"}
		m := map[string]int{"old": 1}
		var a any = "old"
		raw := json.RawMessage(`"old"`)
		nc := nullCounter{}
		st := struct{ A int }{9}
		str := "old"
		return []any{&i, &pi, &sl, &m, &a, &raw, &nc, &st, &str}
	}
	vals := []string{`7`, `8`, `["n"]`, `{"n":2}`, `[1,"x"]`, `{"r":1}`, `"c"`, `{"A":3}`, `"z"`}
	for nullAt := -1; nullAt < len(vals); nullAt++ {
		elems := append([]string(nil), vals...)
		if nullAt >= 0 {
			elems[nullAt] = "null"
		}
		got, want := mk(), mk()
		data := "[" + strings.Join(elems, ", ") + "]"
		a := handler.Args(got)
		err := json.Unmarshal([]byte(data), &a)
		res.Evaluations++
		res.Classes["args/elementwise"]++
		if err != nil {
			res.add("C16", "Args, element by element", data, "Args rejected it: "+err.Error())
			continue
		}
		for i := range want {
			if e := json.Unmarshal([]byte(elems[i]), want[i]); e != nil {
				res.add("C16", "Args, element by element", data, "harness: reference decoding failed: "+e.Error())
			}
		}
		for i := range want {
			g, w := reflect.ValueOf(got[i]).Elem().Interface(), reflect.ValueOf(want[i]).Elem().Interface()
			if !reflect.DeepEqual(g, w) {
				res.add("C16", "Args, element by element", data, fmt.Sprintf("slot %d holds %#v; json.Unmarshal of element %d (%s) into the same target leaves %#v", i, g, i, elems[i], w))
			}
		}
	}
	// the same for Obj, key by key (keys without a target are ignored, targets without a key are left alone)
	keys := []string{"i", "pi", "sl", "m", "a", "raw", "nc", "st", "str"}
	for nullAt := -1; nullAt < len(vals); nullAt++ {
		elems := append([]string(nil), vals...)
		if nullAt >= 0 {
			elems[nullAt] = "null"
		}
		got, want := mk(), mk()
		o := handler.Obj{}
		var parts []string
		for i, k := range keys {
			if i != (nullAt+3)%len(keys) { // one target has no key in the text
				parts = append(parts, fmt.Sprintf("%q: %s", k, elems[i]))
			}
			o[k] = got[i]
		}
		parts = append(parts, `"nobody": null`)
		data := "{" + strings.Join(parts, ", ") + "}"
		err := json.Unmarshal([]byte(data), &o)
		res.Evaluations++
		res.Classes["obj/elementwise"]++
		if err != nil {
			res.add("C16", "Obj, key by key", data, "Obj rejected it: "+err.Error())
			continue
		}
		for i := range want {
			if i != (nullAt+3)%len(keys) {
				json.Unmarshal([]byte(elems[i]), want[i])
			}
			g, w := reflect.ValueOf(got[i]).Elem().Interface(), reflect.ValueOf(want[i]).Elem().Interface()
			if !reflect.DeepEqual(g, w) {
				res.add("C16", "Obj, key by key", data, fmt.Sprintf("target %q holds %#v; json.Unmarshal of its value into the same target leaves %#v", keys[i], g, w))
			}
		}
	}
}

func checkArgs(c ArgsCell, res *result) {
	const sentI, sentS = -99, "untouched"
	vals := []string{`7`, `"x"`, `true`, `[1,2]`}
	x, s, b, l := sentI, sentS, false, []int{sentI}
	targets := []any{&x, &s, nil, &l} // slot 3 is nil: skipped
	_ = b
	a := handler.Args(targets[:c.Len])
	elems := append([]string{}, vals[:c.Len]...)
	var data string
	switch c.P {
	case "arrLen":
		data = "[" + strings.Join(elems, ",") + "]"
	case "arrShort":
		if c.Len == 0 {
			return
		}
		data = "[" + strings.Join(elems[:c.Len-1], ",") + "]"
	case "arrLong":
		data = "[" + strings.Join(append(elems, `1`), ",") + "]"
	case "arrWrongType":
		if c.Len == 0 {
			return
		}
		elems[0] = `{"no":1}`
		data = "[" + strings.Join(elems, ",") + "]"
	case "arrNullElem":
		if c.Len == 0 {
			return
		}
		elems[c.Len-1] = `null`
		data = "[" + strings.Join(elems, ",") + "]"
	case "object":
		data = `{"a":1}`
	case "scalar":
		data = `5`
	}
	var err error
	var p any
	func() {
		defer func() { p = recover() }()
		err = json.Unmarshal([]byte(data), &a)
	}()
	res.Evaluations++
	res.Classes["args/"+c.Out]++
	switch {
	case p != nil:
		res.add("C16", c, data, fmt.Sprintf("Args.UnmarshalJSON panicked: %v", p))
	case c.Out == "error" && err == nil:
		res.add("C16", c, data, "Args accepted it")
	case c.Out == "ok" && err != nil:
		res.add("C16", c, data, "Args rejected it: "+err.Error())
	case c.Out == "ok" && c.P == "arrLen":
		if c.Len >= 1 && x != 7 || c.Len >= 2 && s != "x" || c.Len >= 4 && !reflect.DeepEqual(l, []int{1, 2}) {
			res.add("C16", c, data, fmt.Sprintf("decoded x=%v s=%v l=%v", x, s, l))
		}
	}
	// targets beyond the decoded length are never touched
	if c.Len < 4 && !reflect.DeepEqual(l, []int{sentI}) || c.Len < 2 && s != sentS || c.Len < 1 && x != sentI {
		res.add("C16", c, data, fmt.Sprintf("a target outside the slice was modified: x=%v s=%v l=%v", x, s, l))
	}
	// encoding: exact length, [] for empty
	enc, eerr := json.Marshal(handler.Args([]any{1, "a", nil, []int{2}}[:c.Len]))
	want := []string{`[]`, `[1]`, `[1,"a"]`, `[1,"a",null]`, `[1,"a",null,[2]]`}[c.Len]
	res.Evaluations++
	if eerr != nil || string(enc) != want {
		res.add("C16", c, want, fmt.Sprintf("Args encodes to %s (err %v)", enc, eerr))
	}
}

func checkObj(c ObjCell, res *result) {
	const sentI, sentS = -99, "untouched"
	x, s, other := sentI, sentS, sentI
	o := handler.Obj{"x": &x, "s": &s, "other": &other}
	data := map[string]string{"allKeys": `{"x":7,"s":"v","other":3}`, "someKeys": `{"s":"v"}`, "extraKeys": `{"x":7,"zzz":[1]}`, "wrongType": `{"x":"str"}`,
		"array": `[1]`, "scalar": `5`, "empty": `{}`}[c.P]
	var err error
	var p any
	func() {
		defer func() { p = recover() }()
		err = json.Unmarshal([]byte(data), &o)
	}()
	res.Evaluations++
	res.Classes["obj/"+c.Out]++
	switch {
	case p != nil:
		res.add("C16", c, data, fmt.Sprintf("Obj.UnmarshalJSON panicked: %v", p))
	case c.Out == "error" && err == nil:
		res.add("C16", c, data, "Obj accepted it")
	case c.Out == "ok" && err != nil:
		res.add("C16", c, data, "Obj rejected it: "+err.Error())
	case c.Out == "ok":
		wantX, wantS, wantO := sentI, sentS, sentI
		switch c.P {
		case "allKeys":
			wantX, wantS, wantO = 7, "v", 3
		case "someKeys":
			wantS = "v"
		case "extraKeys":
			wantX = 7
		}
		if x != wantX || s != wantS || other != wantO {
			res.add("C16", c, data, fmt.Sprintf("decoded x=%v s=%v other=%v; only present keys may be decoded and no other target touched", x, s, other))
		}
	}
}

func TestAdapt(t *testing.T) {
	tp := os.Getenv("VERIF_TABLE")
	if tp == "" {
		t.Skip("no VERIF_TABLE")
	}
	var tab Table
	b, err := os.ReadFile(tp)
	if err != nil {
		t.Fatal(err)
	}
	if err := json.Unmarshal(b, &tab); err != nil {
		t.Fatal(err)
	}
	shard, _ := strconv.Atoi(os.Getenv("VERIF_SHARD"))
	which := os.Getenv("VERIF_WHICH")
	res := &result{Classes: map[string]int{}}
	if shard == 0 { // the tables are small: one worker
		if which == "C15" {
			for _, c := range tab.Sigs {
				res.Cells++
				checkSig(c, res)
			}
			for _, v := range []any{nil, 5, "x", struct{}{}, []int{1}, (*int)(nil)} {
				res.Evaluations++
				if _, err := handler.Check(v); err == nil {
					res.add("C15", fmt.Sprintf("%T", v), "", "Check accepted a non-function")
				}
			}
			vs := variants()
			for _, c := range tab.Wrap {
				res.Cells++
				checkWrap(c, vs, res)
			}
			for _, c := range tab.Kinds {
				res.Cells++
				checkKind(c, res)
			}
			checkOverlap("C15", res)
			checkParallel("C15", res)
			checkResultTypes(res)
			checkStrictNested("C15", res)
			checkTagForms(res)
			res.Samples = append(res.Samples, "func(context.Context, S2) (any, error) with params [7,\"x\"], strict, AllowArray", "func(context.Context, ...[]int) int")
		}
		if which == "C16" {
			checkOverlap("C16", res)
			checkParallel("C16", res)
			checkArgsElementwise(res)
			checkPosUnnamed(res)
			checkPosRewrap(res)
			checkPosInterfaces(res)
			checkStrictNested("C16", res)
			for _, c := range tab.Pos {
				res.Cells++
				checkPos(c, res)
			}
			for _, c := range tab.Names {
				res.Cells++
				checkNames(c, res)
			}
			for _, c := range tab.Args {
				res.Cells++
				checkArgs(c, res)
			}
			for _, c := range tab.Obj {
				res.Cells++
				checkObj(c, res)
			}
			res.Samples = append(res.Samples, "func(ctx, int, string, bool) with params [7,null,true]", "Obj{x,s,other} <- {\"x\":7,\"zzz\":[1]}")
		}
	}
	out, _ := json.Marshal(res)
	if p := os.Getenv("VERIF_OUT"); p != "" {
		os.WriteFile(p, out, 0o644)
	}
}
