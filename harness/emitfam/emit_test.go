// Package emitfam covers the emission half of C13: every cell of the product
// enumerated by spec/Emit.tla (emission path x method character classes x value
// classes) is pushed through the real Client / Server / push / callback / Bridge
// path; the bytes handed to the channel (or written to the HTTP body) are
// captured and checked: valid UTF-8, one line without raw control bytes,
// "jsonrpc":"2.0", well-formed shape, and parse back (library parser and an
// independent generic decoder) to the same id, method and JSON-equal payload.
package emitfam

import (
	"bytes"
	"context"
	"encoding/json"
	"fmt"
	"io"
	"math"
	"math/rand/v2"
	"net/http/httptest"
	"os"
	"reflect"
	"runtime"
	"strconv"
	"strings"
	"sync"
	"testing"
	"testing/synctest"
	"time"
	"unicode/utf8"

	"github.com/creachadair/jrpc2"
	"github.com/creachadair/jrpc2/channel"
	"github.com/creachadair/jrpc2/jhttp"
	"verif/harness/vh"
)

type Cell struct {
	Path   string   `json:"path"`
	Method []string `json:"method"`
	Value  string   `json:"value"`
	IsReq  bool     `json:"isReq"`
	HasID  bool     `json:"hasId"`
}
type Table struct {
	Cells []Cell   `json:"cells"`
	IDs   []string `json:"ids"`
}

func mtext(cls string, rng *rand.Rand) string {
	switch cls {
	case "ascii":
		return []string{"m", "Method", "x_y-z"}[rng.IntN(3)]
	case "quote":
		return `q"q`
	case "backslash":
		return `b\s`
	case "lf":
		return "l\nf"
	case "tab":
		return "t\tb"
	case "nul":
		return "n\x00l"
	case "del":
		return "d\x7fl"
	case "ctl": // control characters that Go escapes differently from JSON (\a, \v, \x01)
		return "c\x01\a\vl"
	case "html":
		return "<h>&"
	case "u2028":
		return "u\u2028\u2029"
	case "latin":
		return "é"
	case "astral":
		return "😀"
	case "rpcdot":
		return "rpc."
	case "space":
		return " s "
	}
	return cls
}

func value(cls string, rng *rand.Rand) any {
	switch cls {
	case "absent":
		return nil
	case "null":
		return json.RawMessage("null")
	case "emptyobj":
		return map[string]any{}
	case "emptyarr":
		return []int{}
	case "nested":
		return map[string]any{"a": []any{1, map[string]any{"b": []any{nil, true, "x"}}}, "n": rng.IntN(1000)}
	case "bignum":
		return json.RawMessage(`{"n":123456789012345678901234567890,"f":-0.000000000000000000001,"e":1E+2}`)
	case "rawws":
		return json.RawMessage("{\n\t\"a\": [1,\r\n 2],\n \"s\": \"x y\"\n}")
	case "ctrlstr":
		return map[string]string{"s": "a\nb\tc\x00d\x1f\x7f"}
	case "unicode":
		return map[string]string{"s": "é😀\u2028\u2029\ufeff"}
	case "map":
		return map[string]int{"one": 1, "two": 2}
	case "slice":
		return []string{"a", "b \"c\""}
	case "htmlstr":
		return map[string]string{"s": "<script>&amp;</script>"}
	}
	return nil
}

type tap struct {
	channel.Channel
	mu   sync.Mutex
	sent [][]byte
}

func (t *tap) Send(b []byte) error {
	t.mu.Lock()
	t.sent = append(t.sent, append([]byte(nil), b...))
	t.mu.Unlock()
	return t.Channel.Send(b)
}
func (t *tap) take() [][]byte {
	t.mu.Lock()
	defer t.mu.Unlock()
	s := t.sent
	t.sent = nil
	return s
}

type violation struct {
	Property string `json:"property"`
	Cell     string `json:"cell"`
	Record   string `json:"record"`
	Why      string `json:"why"`
}
type result struct {
	Evaluations int            `json:"evaluations"`
	Cells       int            `json:"cells"`
	Classes     map[string]int `json:"classes"`
	Violations  []violation    `json:"violations"`
	Samples     []string       `json:"samples"`
}

func (r *result) add(c any, rec []byte, why string) {
	cj, _ := json.Marshal(c)
	n13, n10 := 0, 0
	for _, v := range r.Violations {
		if v.Property == "C13" {
			n13++
		} else {
			n10++
		}
	}
	if n13 < 30 {
		r.Violations = append(r.Violations, violation{"C13", string(cj), strconv.Quote(string(rec)), why})
	}
	// C10: whatever is handed to Channel.Send is one complete JSON-RPC message: a JSON object or a non-empty array of objects
	if rec != nil && n10 < 30 {
		if _, ok := wholeMessage(rec); !ok {
			r.Violations = append(r.Violations, violation{"C10", string(cj), strconv.Quote(string(rec)), "the record passed to Send is not a JSON object or a non-empty array of objects"})
		}
	}
}

func wholeMessage(rec []byte) ([]map[string]json.RawMessage, bool) {
	if !json.Valid(rec) || len(bytes.TrimSpace(rec)) == 0 {
		return nil, false
	}
	return members(rec)
}

func jsonEq(a, b []byte) bool {
	var x, y any
	da := json.NewDecoder(bytes.NewReader(a))
	da.UseNumber()
	db := json.NewDecoder(bytes.NewReader(b))
	db.UseNumber()
	if da.Decode(&x) != nil || db.Decode(&y) != nil {
		return false
	}
	return reflect.DeepEqual(normNum(x), normNum(y))
}

// normNum makes numbers comparable by value where that is exact (same literal after trimming) - otherwise by text.
func normNum(v any) any {
	switch t := v.(type) {
	case json.Number:
		return strings.ToLower(strings.Replace(string(t), "+", "", -1))
	case []any:
		for i := range t {
			t[i] = normNum(t[i])
		}
	case map[string]any:
		for k := range t {
			t[k] = normNum(t[k])
		}
	}
	return v
}

// lineOK checks the framing-independence clauses for one emitted record.
func lineOK(rec []byte) string {
	if !utf8.Valid(rec) {
		return "not valid UTF-8"
	}
	for _, b := range rec {
		if b < 0x20 {
			return fmt.Sprintf("raw control byte 0x%02x in the emitted record", b)
		}
	}
	if !json.Valid(rec) {
		return "not valid JSON"
	}
	t := bytes.TrimSpace(rec)
	if len(t) == 0 || (t[0] != '{' && t[0] != '[') {
		return "not an object or array"
	}
	return ""
}

// members splits a record into message objects (generic decode).
func members(rec []byte) ([]map[string]json.RawMessage, bool) {
	t := bytes.TrimSpace(rec)
	var raws []json.RawMessage
	if t[0] == '[' {
		if json.Unmarshal(t, &raws) != nil || len(raws) == 0 {
			return nil, false
		}
	} else {
		raws = []json.RawMessage{t}
	}
	var out []map[string]json.RawMessage
	for _, r := range raws {
		var m map[string]json.RawMessage
		if json.Unmarshal(r, &m) != nil {
			return nil, false
		}
		out = append(out, m)
	}
	return out, true
}

// checkRequest: an emitted request must carry version, the exact method, JSON-equal params, id iff wantID,
// under the independent decoder and under the library's own parser.
func checkRequest(rec []byte, method string, params any, wantID []bool) string {
	if why := lineOK(rec); why != "" {
		return why
	}
	ms, ok := members(rec)
	if !ok || len(ms) != len(wantID) {
		return fmt.Sprintf("%d messages, want %d", len(ms), len(wantID))
	}
	want, _ := json.Marshal(params)
	prs, err := jrpc2.ParseRequests(rec)
	if err != nil || len(prs) != len(ms) {
		return fmt.Sprintf("the library's own parser rejects it: %v", err)
	}
	for i, m := range ms {
		var v, meth string
		if json.Unmarshal(m["jsonrpc"], &v) != nil || v != "2.0" {
			return "missing \"jsonrpc\":\"2.0\""
		}
		if json.Unmarshal(m["method"], &meth) != nil || meth != method {
			return fmt.Sprintf("method parses back as %q, want %q", meth, method)
		}
		_, hasR := m["result"]
		_, hasE := m["error"]
		if hasR || hasE {
			return "a request carries result/error"
		}
		_, hasID := m["id"]
		if hasID != wantID[i] {
			return fmt.Sprintf("message %d: id present=%v, want %v", i, hasID, wantID[i])
		}
		p, hasP := m["params"]
		switch {
		case params == nil || string(want) == "null":
			if hasP && string(bytes.TrimSpace(p)) != "null" {
				return fmt.Sprintf("params %s for absent/null parameters", p)
			}
		case !hasP || !jsonEq(p, want):
			return fmt.Sprintf("params parse back as %s, want %s", p, want)
		}
		if prs[i].Error != nil {
			return fmt.Sprintf("the library's own parser flags it: %v", prs[i].Error)
		}
		if prs[i].Method != method || (params != nil && string(want) != "null" && !jsonEq(prs[i].Params, want)) {
			return fmt.Sprintf("the library's parser reads method %q params %s", prs[i].Method, prs[i].Params)
		}
	}
	return ""
}

// checkResponse: an emitted response: version, id, exactly one of result / error, JSON-equal payload.
func checkResponse(rec []byte, wantResult any, wantErr *jrpc2.Error) string {
	if why := lineOK(rec); why != "" {
		return why
	}
	ms, ok := members(rec)
	if !ok || len(ms) == 0 {
		return "not a message"
	}
	for _, m := range ms {
		var v string
		if json.Unmarshal(m["jsonrpc"], &v) != nil || v != "2.0" {
			return "missing \"jsonrpc\":\"2.0\""
		}
		if _, ok := m["id"]; !ok {
			return "response without id"
		}
		r, hasR := m["result"]
		e, hasE := m["error"]
		if hasR == hasE {
			return "want exactly one of result / error"
		}
		if _, hasM := m["method"]; hasM {
			return "a response carries a method"
		}
		if wantErr != nil {
			var eo struct {
				Code    int             `json:"code"`
				Message string          `json:"message"`
				Data    json.RawMessage `json:"data"`
			}
			if !hasE || json.Unmarshal(e, &eo) != nil {
				return "want an error object"
			}
			if eo.Code != int(wantErr.Code) || eo.Message != wantErr.Message {
				return fmt.Sprintf("error parses back as code %d message %q, want %d %q", eo.Code, eo.Message, wantErr.Code, wantErr.Message)
			}
			if len(wantErr.Data) != 0 && !jsonEq(eo.Data, wantErr.Data) {
				return fmt.Sprintf("error data parses back as %s, want %s", eo.Data, wantErr.Data)
			}
		} else if wantResult != nil {
			want, _ := json.Marshal(wantResult)
			if !hasR || !jsonEq(r, want) {
				return fmt.Sprintf("result parses back as %s, want %s", r, want)
			}
		}
	}
	return ""
}

// ---- records that wait between encoding and Send ------------------------------------------------------------------
//
// A client encodes a request before it takes its lock; while another Send is in progress the encoded bytes wait. What
// reaches the channel afterwards must still be what was encoded - whatever else was encoded meanwhile, by the same
// client, by another one, or by a server on the same processor (one processor for this block: per-processor caches
// of buffers hand the next encoder what the previous one gave back).
type parkChan struct {
	mu     sync.Mutex
	gate   chan struct{}
	parked chan struct{}
	n      int
	recs   [][]byte
	done   chan struct{}
}

func (p *parkChan) Send(b []byte) error {
	p.mu.Lock()
	p.n++
	first := p.n == 1
	p.recs = append(p.recs, append([]byte(nil), b...))
	p.mu.Unlock()
	if first {
		close(p.parked)
		<-p.gate
	}
	return nil
}
func (p *parkChan) Recv() ([]byte, error) { <-p.done; return nil, io.EOF }
func (p *parkChan) Close() error {
	select {
	case <-p.done:
	default:
		close(p.done)
	}
	return nil
}

func queuedRecords(res *result) {
	old := runtime.GOMAXPROCS(1)
	defer runtime.GOMAXPROCS(old)
	long := strings.Repeat("x", 300)
	type op struct {
		name  string
		specs []jrpc2.Spec
	}
	ops := []op{
		{"A", []jrpc2.Spec{{Method: "A.one", Params: []string{long}, Notify: true}, {Method: "A.two", Params: []string{long, long}, Notify: true}, {Method: "A.three", Params: map[string]string{"k": long}, Notify: true}}},
		{"C", []jrpc2.Spec{{Method: "C.one", Params: []int{1}, Notify: true}, {Method: "C.two", Notify: true}}},
		{"D", []jrpc2.Spec{{Method: "D.one", Params: []string{"d"}, Notify: true}, {Method: "D.two", Params: []string{long}, Notify: true}, {Method: "D.three", Notify: true}, {Method: "D.four", Params: []int{4}, Notify: true}}},
	}
	for round := 0; round < 3; round++ {
		pc := &parkChan{gate: make(chan struct{}), parked: make(chan struct{}), done: make(chan struct{})}
		cli := jrpc2.NewClient(pc, nil)
		bg := context.Background()
		var wg sync.WaitGroup
		wg.Add(1)
		go func() { defer wg.Done(); cli.Notify(bg, "first", nil) }()
		select {
		case <-pc.parked:
		case <-time.After(5 * time.Second):
			res.add("queued records", nil, "harness: the first Send never happened")
			return
		}
		order := [][]int{{0, 1, 2}, {1, 0, 2}, {2, 1, 0}}[round]
		for _, k := range order {
			wg.Add(1)
			go func(o op) { defer wg.Done(); cli.Batch(bg, o.specs) }(ops[k])
			time.Sleep(5 * time.Millisecond) // (one processor: the sleeper yields; the batch encodes and queues on the lock)
		}
		close(pc.gate)
		wg.Wait()
		cli.Close()
		pc.mu.Lock()
		recs := pc.recs
		pc.mu.Unlock()
		res.Evaluations += len(recs)
		res.Classes["queued"] += len(recs)
		seen := map[string]int{}
		for _, rec := range recs[1:] {
			cell := fmt.Sprintf("record queued behind a Send in progress (round %d)", round)
			reqs, err := jrpc2.ParseRequests(rec)
			if bytes.ContainsAny(rec, "\n\r") || !json.Valid(rec) || err != nil {
				res.add(cell, rec, fmt.Sprintf("what reached Send is not one valid one-line message (ParseRequests: %v)", err))
				continue
			}
			var match string
			for _, o := range ops {
				ok := len(reqs) == len(o.specs)
				for i := 0; ok && i < len(reqs); i++ {
					want, _ := json.Marshal(o.specs[i].Params)
					if o.specs[i].Params == nil {
						want = nil
					}
					ok = reqs[i].Error == nil && reqs[i].Method == o.specs[i].Method && (len(want) == 0 && len(reqs[i].Params) == 0 || jsonEq(reqs[i].Params, want))
				}
				if ok {
					match = o.name
				}
			}
			if match == "" {
				res.add(cell, rec, "the record is none of the batches that were issued (methods and parameters compared)")
			}
			seen[match]++
		}
		for _, o := range ops {
			if seen[o.name] != 1 && len(res.Violations) == 0 {
				res.add("records queued behind a Send in progress", nil, fmt.Sprintf("batch %s reached the channel %d times, want once", o.name, seen[o.name]))
			}
		}
	}
}

func TestEmit(t *testing.T) {
	tp := os.Getenv("VERIF_TABLE")
	if tp == "" {
		t.Skip()
	}
	var tab Table
	b, err := os.ReadFile(tp)
	if err != nil {
		t.Fatal(err)
	}
	if err := json.Unmarshal(b, &tab); err != nil {
		t.Fatal(err)
	}
	shard, _ := strconv.Atoi(os.Getenv("VERIF_SHARD"))
	nshard, _ := strconv.Atoi(os.Getenv("VERIF_NSHARD"))
	if nshard == 0 {
		nshard = 1
	}
	seed, _ := strconv.ParseUint(os.Getenv("VERIF_SEED"), 10, 64)
	stride, _ := strconv.Atoi(os.Getenv("VERIF_STRIDE")) // quick tier: every stride-th cell
	if stride == 0 {
		stride = 1
	}
	rng := rand.New(rand.NewPCG(seed, uint64(shard)+11))
	res := &result{Classes: map[string]int{}}

	synctest.Test(t, func(t *testing.T) {
		var mode string // what the catch-all handler does
		var hval any
		var herr *jrpc2.Error
		var cbval any
		assign := assignFunc(func(ctx context.Context, method string) jrpc2.Handler {
			return func(ctx context.Context, req *jrpc2.Request) (any, error) {
				switch mode {
				case "errresponse":
					return nil, herr
				case "response":
					return hval, nil
				case "pushnotify":
					return nil, jrpc2.ServerFromContext(ctx).Notify(ctx, req.Method(), hval)
				case "callback":
					rsp, err := jrpc2.ServerFromContext(ctx).Callback(ctx, req.Method(), hval)
					if err != nil {
						return nil, err
					}
					var v json.RawMessage
					rsp.UnmarshalResult(&v)
					return v, nil
				}
				if req.HasParams() {
					return json.RawMessage(req.ParamString()), nil
				}
				return nil, nil
			}
		})
		cch, sch := channel.Direct()
		ct, st := &tap{Channel: cch}, &tap{Channel: sch}
		srv := jrpc2.NewServer(assign, &jrpc2.ServerOptions{AllowPush: true, DisableBuiltin: true, Concurrency: 4}).Start(st)
		cli := jrpc2.NewClient(ct, &jrpc2.ClientOptions{
			OnCallback: func(ctx context.Context, req *jrpc2.Request) (any, error) { return cbval, nil },
			OnNotify:   func(*jrpc2.Request) {},
		})
		bridge := jhttp.NewBridge(assign, &jhttp.BridgeOptions{Server: &jrpc2.ServerOptions{DisableBuiltin: true}})
		bg := context.Background()

		for i, c := range tab.Cells {
			if i%nshard != shard || (i/nshard)%stride != 0 {
				continue
			}
			res.Cells++
			res.Classes[c.Path]++
			var method string
			for _, m := range c.Method {
				method += mtext(m, rng)
			}
			val := value(c.Value, rng)
			mode, hval, herr, cbval = "echo", nil, nil, nil
			// a reply may never come if what was emitted cannot be parsed back: every operation has a (fake-clock) deadline
			ctx, cancelOp := context.WithTimeout(bg, time.Minute)
			_ = cancelOp // the context is abandoned at the end of the cell; the bubble's fake clock never reaches it otherwise
			ct.take()
			st.take()
			res.Evaluations++
			switch c.Path {
			case "call":
				cli.Call(ctx, method, val)
				synctest.Wait()
				for _, rec := range ct.take() {
					if why := checkRequest(rec, method, val, []bool{true}); why != "" {
						res.add(c, rec, "client request: "+why)
					}
				}
				for _, rec := range st.take() {
					if why := checkResponse(rec, nil, nil); why != "" {
						res.add(c, rec, "server response: "+why)
					}
				}
			case "batch":
				cli.Batch(ctx, []jrpc2.Spec{{Method: method, Params: val}, {Method: method, Params: val, Notify: true}, {Method: method, Params: val}})
				synctest.Wait()
				for _, rec := range ct.take() {
					if why := checkRequest(rec, method, val, []bool{true, false, true}); why != "" {
						res.add(c, rec, "client batch: "+why)
					}
				}
				for _, rec := range st.take() {
					if why := checkResponse(rec, nil, nil); why != "" {
						res.add(c, rec, "server batch response: "+why)
					}
				}
			case "notify":
				cli.Notify(ctx, method, val)
				synctest.Wait()
				for _, rec := range ct.take() {
					if why := checkRequest(rec, method, val, []bool{false}); why != "" {
						res.add(c, rec, "client notification: "+why)
					}
				}
			case "response":
				mode, hval = "response", val
				if m, ok := val.(map[string]string); ok && rng.IntN(2) == 0 {
					hval = m["s"] // scalar string result with every character class
				}
				cli.Call(ctx, "m", nil)
				synctest.Wait()
				for _, rec := range st.take() {
					if why := checkResponse(rec, orNull(hval), nil); why != "" {
						res.add(c, rec, "server response: "+why)
					}
				}
			case "errresponse":
				mode = "errresponse"
				herr = &jrpc2.Error{Code: jrpc2.Code(rng.IntN(100000) - 50000), Message: method}
				if val != nil {
					herr = herr.WithData(val)
				}
				cli.Call(ctx, "m", nil)
				synctest.Wait()
				for _, rec := range st.take() {
					if why := checkResponse(rec, nil, herr); why != "" {
						res.add(c, rec, "server error response: "+why)
					}
				}
			case "pushnotify":
				mode, hval = "pushnotify", val
				if method == "" {
					continue
				}
				cli.Call(ctx, method, nil)
				synctest.Wait()
				recs := st.take()
				if len(recs) >= 1 && !strings.HasPrefix(method, "rpc.") {
					if why := checkRequest(recs[0], method, val, []bool{false}); why != "" {
						res.add(c, recs[0], "pushed notification: "+why)
					}
				}
			case "callback", "cbreply":
				mode, hval, cbval = "callback", val, val
				cli.Call(ctx, method, nil)
				synctest.Wait()
				recs := st.take()
				if len(recs) >= 1 {
					if why := checkRequest(recs[0], method, val, []bool{true}); why != "" && c.Path == "callback" {
						res.add(c, recs[0], "pushed call: "+why)
					}
				}
				crecs := ct.take()
				if c.Path == "cbreply" && len(crecs) >= 2 {
					if why := checkResponse(crecs[1], orNull(cbval), nil); why != "" {
						res.add(c, crecs[1], "client callback reply: "+why)
					}
				}
			case "bridge":
				idc := tab.IDs[rng.IntN(len(tab.IDs))]
				id := map[string]string{"int": "7", "neg": "-3", "exp": "1e3", "frac": "1.5", "str": `"a"`, "emptystr": `""`, "quotestr": `"q\"\\"`, "unistr": `"é😀"`, "bigint": "123456789012345678901234567890", "pctstr": `"50%d%s"`}[idc]
				mj, _ := json.Marshal(method)
				body := fmt.Sprintf(`{"jsonrpc":"2.0","id":%s,"method":%s`, id, mj)
				if val != nil {
					pj, _ := json.Marshal(val)
					body += `,"params":` + string(pj)
				}
				body += "}"
				req := httptest.NewRequest("POST", "http://b/", strings.NewReader(body)).WithContext(ctx)
				req.Header.Set("Content-Type", "application/json")
				w := httptest.NewRecorder()
				done := make(chan struct{})
				go func() { bridge.ServeHTTP(w, req); close(done) }()
				synctest.Wait()
				<-done
				rec := w.Body.Bytes()
				if method == "" {
					continue
				}
				if why := checkResponse(rec, nil, nil); why != "" {
					res.add(c, rec, "bridge reply: "+why)
				} else if ms, _ := members(rec); len(ms) == 1 && !jsonEq(ms[0]["id"], []byte(id)) {
					res.add(c, rec, fmt.Sprintf("bridge reply id %s, want %s", ms[0]["id"], id))
				} else if r, ok := ms[0]["result"]; ok && val != nil {
					pj, _ := json.Marshal(val)
					if string(pj) != "null" && !jsonEq(r, pj) {
						res.add(c, rec, fmt.Sprintf("bridge result %s, want %s", r, pj))
					}
				}
			}
			if len(res.Samples) < 5 && i%4001 == 3 {
				res.Samples = append(res.Samples, fmt.Sprintf("%s %q %s", c.Path, method, c.Value))
			}
		}
		// server responses echo every id class (raw requests on an instrumented channel)
		if shard == 0 {
			rec := &vh.Recorder{}
			vc := vh.NewVChan("e", rec, false)
			rs := jrpc2.NewServer(assign, nil).Start(vc)
			mode = "echo"
			for _, id := range []string{"7", "-3", "1e3", "1.5", `"a"`, `""`, `"q\"\\"`, `"é😀"`, "123456789012345678901234567890", `"\u2028"`, "0", `" "`} {
				vc.Push([]byte(fmt.Sprintf(`{"jsonrpc":"2.0","id":%s,"method":"m","params":[1]}`, id)), nil)
				synctest.Wait()
				vc.Lock()
				outs := vc.Out
				vc.Out = nil
				vc.Unlock()
				res.Evaluations++
				if len(outs) != 1 {
					res.add(id, nil, fmt.Sprintf("%d responses", len(outs)))
				} else if why := checkResponse(outs[0], []int{1}, nil); why != "" {
					res.add(id, outs[0], why)
				} else if ms, _ := members(outs[0]); !jsonEq(ms[0]["id"], []byte(id)) {
					res.add(id, outs[0], fmt.Sprintf("id echoed as %s", ms[0]["id"]))
				}
			}
			vc.PeerClose()
			rs.Wait()
			// values that cannot be encoded as they stand, through every path that emits something: whatever the library
			// then does (an error to the caller, an error response to the peer), nothing that is not a whole JSON-RPC
			// message reaches a channel
			for _, bad := range []any{json.RawMessage(`{"partial":`), json.RawMessage(`nonsense`), json.RawMessage("{}\n{}"), json.RawMessage(` `), make(chan int), math.NaN(),
				map[string]any{"a": json.RawMessage(`[1,`)}} {
				cell := fmt.Sprintf("unencodable %T %v", bad, bad)
				octx, ocancel := context.WithTimeout(bg, 5*time.Second)
				ct.take()
				st.take()
				// handler result, pushed parameters, callback result
				for _, m := range []string{"response", "pushnotify", "callback"} {
					mode, hval, cbval = m, bad, bad
					if m == "callback" {
						hval = []int{1}
					}
					cli.Call(octx, "m", []int{1})
					res.Evaluations++
				}
				// client parameters
				mode = ""
				cli.Call(octx, "m", bad)
				cli.Notify(octx, "m", bad)
				cli.Batch(octx, []jrpc2.Spec{{Method: "m", Params: []int{1}}, {Method: "m", Params: bad}})
				res.Evaluations += 3
				ocancel()
				synctest.Wait()
				for _, rec := range append(ct.take(), st.take()...) {
					if _, ok := wholeMessage(rec); !ok {
						res.add(cell, rec, "a record that is not a whole JSON-RPC message was handed to a channel")
					}
				}
				// the connection still works
				mode, hval = "response", "fine"
				if _, err := cli.Call(bg, "m", nil); err != nil {
					res.add(cell, nil, "connection unusable afterwards: "+err.Error())
				}
				ct.take()
				st.take()
			}
			// bridge replies echo every id class too: the handler's result, a method-not-found error, and the error
			// objects the bridge writes itself for statically invalid members (three kinds)
			for _, id := range []string{"7", "-3", "1e3", "1.5", `"a"`, `""`, `"q\"\\"`, `"é😀"`, "123456789012345678901234567890", `"\u2028"`, "0", `" "`,
				`"50%"`, `"%d%s%v"`, `"%%"`, `"%!(EXTRA)"`, `"{}[]"`, `"\\n"`} {
				for k, body := range []string{
					fmt.Sprintf(`{"jsonrpc":"2.0","id":%s,"method":"m","params":[1]}`, id),
					fmt.Sprintf(`{"jsonrpc":"2.0","id":%s,"method":"no-such-method"}`, id),
					fmt.Sprintf(`{"jsonrpc":"1.0","id":%s,"method":"m"}`, id),
					fmt.Sprintf(`{"jsonrpc":"2.0","id":%s,"method":"m","extra":true}`, id),
					fmt.Sprintf(`{"jsonrpc":"2.0","id":%s,"method":"m","params":7}`, id),
					fmt.Sprintf(`[{"jsonrpc":"2.0","id":%s,"method":"m","params":"s"},{"jsonrpc":"2.0","id":%s,"method":"m","params":[2]}]`, id, id),
					// notifications among the calls: the replies are those of the calls, each under its own id
					fmt.Sprintf(`[{"jsonrpc":"2.0","method":"m"},{"jsonrpc":"2.0","id":%s,"method":"m","params":[3]}]`, id),
					fmt.Sprintf(`[{"jsonrpc":"2.0","id":%s,"method":"m"},{"jsonrpc":"2.0","id":null,"method":"m"},{"jsonrpc":"2.0","method":"no-such-method"},{"jsonrpc":"2.0","id":%s,"method":"m","params":[4]}]`, id, id),
				} {
					req := httptest.NewRequest("POST", "http://b/", strings.NewReader(body))
					req.Header.Set("Content-Type", "application/json")
					w := httptest.NewRecorder()
					done := make(chan struct{})
					go func() { bridge.ServeHTTP(w, req); close(done) }()
					synctest.Wait()
					<-done
					res.Evaluations++
					rec := w.Body.Bytes()
					cell := fmt.Sprintf("bridge id %s body kind %d", id, k)
					ms, ok := wholeMessage(bytes.TrimSpace(rec))
					if w.Code != 200 || !ok || len(ms) == 0 {
						res.add(cell, rec, fmt.Sprintf("bridge answered status %d with a body that is not a JSON-RPC reply", w.Code))
						continue
					}
					if want := map[int]int{5: 2, 6: 1, 7: 2}[k]; want != 0 && len(ms) != want {
						res.add(cell, rec, fmt.Sprintf("bridge answered %d replies, want %d (one per call)", len(ms), want))
					}
					for _, m := range ms {
						if !jsonEq(m["id"], []byte(id)) {
							res.add(cell, rec, fmt.Sprintf("bridge reply id %s, want %s", m["id"], id))
						}
					}
				}
			}
		}
		cli.Close()
		srv.Wait()
		bridge.Close()
	})
	if shard == 0 {
		queuedRecords(res)
	}
	out, _ := json.Marshal(res)
	os.WriteFile(os.Getenv("VERIF_OUT"), out, 0o644)
}

func orNull(v any) any {
	if v == nil {
		return json.RawMessage("null")
	}
	return v
}

type assignFunc func(ctx context.Context, method string) jrpc2.Handler

func (a assignFunc) Assign(ctx context.Context, method string) jrpc2.Handler { return a(ctx, method) }
