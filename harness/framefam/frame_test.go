// Package framefam replays the TLC-evaluated reference tables of spec/Framing.tla
// (C11, C12) into the real framings of package channel through a chunk-controlled
// reader: every stream is decoded under many fragmentations and the sequence of
// Recv outcomes is compared with what the documented format yields.
package framefam

import (
	"bytes"
	"encoding/json"
	"errors"
	"fmt"
	"io"
	"math/rand/v2"
	"os"
	"strconv"
	"strings"
	"sync"
	"testing"
	"time"

	"github.com/creachadair/jrpc2/channel"
)

type Outcome struct {
	K     string   `json:"k"`
	Data  []string `json:"data"`
	CTErr bool     `json:"cterr"`
}
type HCell struct {
	Toks   []int     `json:"toks"`
	Strict []Outcome `json:"strict"`
	Opt    []Outcome `json:"opt"`
	None   []Outcome `json:"none"`
}
type SCell struct {
	Stream []string  `json:"stream"`
	Out    []Outcome `json:"out"`
}
type Table struct {
	Header []HCell    `json:"header"`
	Split  []SCell    `json:"split"`
	Tokens [][]string `json:"tokens"`
}

const jsonMime = "application/json"
const lspMime = "application/vscode-jsonrpc; charset=utf-8"

func symBytes(sym, mime string) string {
	switch sym {
	case "CL":
		return "Content-Length"
	case "cl":
		return "content-length"
	case "Cl":
		return "CONTENT-LENGTH"
	case "CT":
		return "Content-Type"
	case "UK":
		return "X-Unknown"
	case "CrL": // a carriage return where the hyphen belongs (0x0D for 0x2D): not the name of any known field
		return "Content\rLength"
	case "CrT":
		return "content\rTYPE"
	case "big":
		return "99999999999999999999"
	case "mt":
		return mime
	case "ot":
		return "text/plain"
	case "sp":
		return " "
	case "CR":
		return "\r"
	case "LF":
		return "\n"
	case "j":
		return "q"
	case "LONG":
		return strings.Repeat("q", 5000)
	}
	return sym
}

// chunkReader delivers data cut at the given positions; the final chunk may carry io.EOF.
type chunkReader struct {
	data    []byte
	cuts    []int // ascending positions in (0, len)
	pos     int
	eofWith bool
	reads   int
}

func (c *chunkReader) Read(p []byte) (int, error) {
	c.reads++
	if c.pos >= len(c.data) {
		return 0, io.EOF
	}
	end := len(c.data)
	for _, k := range c.cuts {
		if k > c.pos {
			end = k
			break
		}
	}
	n := copy(p, c.data[c.pos:end])
	c.pos += n
	if c.pos >= len(c.data) && c.eofWith {
		return n, io.EOF
	}
	return n, nil
}

type nopWC struct{ io.Writer }

func (nopWC) Close() error { return nil }

type framing struct {
	name string
	f    channel.Framing
	mode string // strict | opt | none (header); "" otherwise
	mime string
	sep  byte
}

const mixedMime = "application/X-Mixed+JSON; Charset=UTF-8"

func headerFramings() []framing {
	return []framing{
		{"StrictHeader(json)", channel.StrictHeader(jsonMime), "strict", jsonMime, 0},
		{"Header(json)", channel.Header(jsonMime), "opt", jsonMime, 0},
		{"LSP", channel.LSP, "opt", lspMime, 0},
		{"Header(\"\")", channel.Header(""), "none", jsonMime, 0},
		{"StrictHeader(\"\")", channel.StrictHeader(""), "none", jsonMime, 0},
		// a media type spelled with capitals: what the channel itself sends must match what it expects
		{"StrictHeader(X-Mixed)", channel.StrictHeader(mixedMime), "strict", mixedMime, 0},
		{"Header(X-Mixed)", channel.Header(mixedMime), "opt", mixedMime, 0},
	}
}
func splitFramings() []framing {
	// the split byte is a byte, not a character: values >= 0x80 (alone they are not valid UTF-8) behave like any other
	return []framing{{"Line", channel.Line, "", "", '\n'}, {"Split(0)", channel.Split(0), "", "", 0}, {"Split(,)", channel.Split(','), "", "", ','},
		{"Split(0x1e)", channel.Split(0x1e), "", "", 0x1e}, {"Split(0x80)", channel.Split(0x80), "", "", 0x80},
		{"Split(0xc3)", channel.Split(0xc3), "", "", 0xc3}, {"Split(0xff)", channel.Split(0xff), "", "", 0xff}}
}

// cutSets returns the fragmentations to try for a stream of n bytes.
func cutSets(n int, rng *rand.Rand, exhaustiveUpTo, nrandom int) [][]int {
	var out [][]int
	if n <= 1 {
		return [][]int{nil}
	}
	if n <= exhaustiveUpTo {
		for mask := 0; mask < 1<<(n-1); mask++ {
			var c []int
			for i := 1; i < n; i++ {
				if mask&(1<<(i-1)) != 0 {
					c = append(c, i)
				}
			}
			out = append(out, c)
		}
		return out
	}
	out = append(out, nil) // everything at once
	var all []int
	for i := 1; i < n; i++ {
		all = append(all, i)
	}
	if n <= 1<<16 {
		out = append(out, all) // 1-byte reads
	}
	for k := 0; k < nrandom; k++ {
		var c []int
		p := 0
		for {
			p += 1 + rng.IntN(max(2, n/3))
			if p >= n {
				break
			}
			c = append(c, p)
		}
		out = append(out, c)
	}
	return out
}

type obs struct {
	data []byte
	err  error
}

// drive performs Recv until it fails (plus two more calls) and returns the observations.
func drive(ch channel.Channel, limit int) (o []obs, panicked any) {
	defer func() {
		if p := recover(); p != nil {
			panicked = p
		}
	}()
	fails := 0
	for i := 0; i < limit; i++ {
		b, err := ch.Recv()
		o = append(o, obs{append([]byte(nil), b...), err})
		var ct *channel.ContentTypeMismatchError
		if err != nil && !errors.As(err, &ct) {
			fails++
			if fails == 3 {
				return
			}
		}
	}
	return
}

func isCT(err error) bool {
	var ct *channel.ContentTypeMismatchError
	return errors.As(err, &ct)
}

// compare checks observations against the reference outcomes; "" = conforms.
func compare(o []obs, want []Outcome, conc func([]string) []byte, exhausted bool) string {
	for i, w := range want {
		if w.K == "either" {
			return ""
		}
		if i >= len(o) {
			return fmt.Sprintf("Recv #%d missing (want %s)", i+1, w.K)
		}
		got := o[i]
		switch w.K {
		case "rec":
			if got.err != nil && !(w.CTErr && isCT(got.err)) {
				return fmt.Sprintf("Recv #%d: error %v, want record %q", i+1, got.err, conc(w.Data))
			}
			if w.CTErr != isCT(got.err) {
				return fmt.Sprintf("Recv #%d: content-type error=%v, want %v", i+1, isCT(got.err), w.CTErr)
			}
			if !bytes.Equal(got.data, conc(w.Data)) {
				return fmt.Sprintf("Recv #%d: record %q, want %q", i+1, got.data, conc(w.Data))
			}
		case "recerr":
			if got.err == nil {
				return fmt.Sprintf("Recv #%d: final unterminated record %q reported without an error", i+1, got.data)
			}
			if !bytes.Equal(got.data, conc(w.Data)) {
				return fmt.Sprintf("Recv #%d: final record %q, want %q (never shortened)", i+1, got.data, conc(w.Data))
			}
		case "err", "errfmt":
			if got.err == nil || isCT(got.err) {
				return fmt.Sprintf("Recv #%d: record %q err=%v, want an error", i+1, got.data, got.err)
			}
			// once the stream is exhausted every further Recv fails
			if w.K == "err" {
				for j := i + 1; j < len(o); j++ {
					if o[j].err == nil {
						return fmt.Sprintf("Recv #%d succeeded (%q) after the stream was exhausted", j+1, o[j].data)
					}
				}
			}
			return ""
		}
	}
	return ""
}

type violation struct {
	Property string `json:"property"`
	Framing  string `json:"framing"`
	Stream   string `json:"stream"` // quoted Go string
	Cuts     []int  `json:"cuts"`
	EOFWith  bool   `json:"eofWith"`
	Why      string `json:"why"`
}
type result struct {
	Evaluations int            `json:"evaluations"`
	Cells       int            `json:"cells"`
	Classes     map[string]int `json:"classes"`
	Violations  []violation    `json:"violations"`
	Samples     []string       `json:"samples"`
}

func (r *result) add(v violation) {
	if len(r.Violations) < 20 {
		r.Violations = append(r.Violations, v)
	}
}

func runStream(fr framing, data []byte, want []Outcome, conc func([]string) []byte, rng *rand.Rand, exh, nrand int, res *result, prop string) {
	for _, cuts := range cutSets(len(data), rng, exh, nrand) {
		for _, eofWith := range []bool{false, true} {
			rd := &chunkReader{data: data, cuts: cuts, eofWith: eofWith}
			ch := fr.f(rd, nopWC{io.Discard})
			o, p := drive(ch, len(want)+4)
			res.Evaluations++
			why := ""
			if p != nil {
				why = fmt.Sprintf("panic: %v", p)
			} else {
				why = compare(o, want, conc, rd.pos >= len(data))
			}
			if why != "" {
				res.add(violation{prop, fr.name, strconv.Quote(string(data)), cuts, eofWith, why})
				return
			}
		}
	}
}

// ---- C11: round trip -------------------------------------------------------------------------

func recordOfClass(cls string, sep byte, k int) []byte {
	fill := func(n int) []byte {
		b := make([]byte, n)
		for i := range b {
			b[i] = "abcdefghijklmnopqrstuvwxyz0123456789"[(i+k)%36]
		}
		return b
	}
	switch cls {
	case "empty":
		return []byte{}
	case "nil": // the empty record spelled as a nil slice
		return nil
	case "one":
		return []byte("z")
	case "two":
		return []byte("{}")
	case "cr":
		return []byte("a\rb\r")
	case "lf":
		return []byte("a\nb")
	case "nul":
		return []byte("a\x00b")
	case "comma":
		return []byte("a,b")
	case "hasSep": // contains the framing's split byte: Send must refuse it (for header framings: an ordinary byte)
		return []byte{'a', sep, 'b'}
	case "utf8OfSep": // the UTF-8 encoding of the code point numbered like the split byte (differs from it for >= 0x80)
		return append([]byte("x"), []byte(string(rune(sep)))...)
	case "hibytes":
		return []byte{0x7f, 0x80, 0xbf, 0xc2, 0xc3, 0xfe, 0xff, 0x1e, 'q'}
	case "hdrlike":
		return []byte("Content-Length: 3\r\n\r\nabc")
	case "b4095":
		return fill(4095)
	case "b4096":
		return fill(4096)
	case "b4097":
		return fill(4097)
	case "b70000":
		return fill(70000)
	case "m600k": // above half a MiB: the receive buffer a header channel keeps for it exceeds the size it shrinks from
		return fill(600 << 10)
	case "mSepLate": // a large record with the split byte far in: refused as a whole, nothing of it written
		b := fill(200 << 10)
		b[150<<10] = sep
		return b
	case "mSepEnd":
		b := fill(100 << 10)
		b[len(b)-1] = sep
		return b
	case "m1":
		return fill(1<<20 + 1)
	case "m5":
		return fill(5 << 20)
	case "m16":
		return fill(1<<24 + 1)
	}
	return []byte(cls)
}

func legal(fr framing, rec []byte) bool {
	if fr.mode == "" && fr.name != "RawJSON" && fr.name != "Direct" {
		return bytes.IndexByte(rec, fr.sep) < 0
	}
	return true
}

type capWC struct {
	buf    bytes.Buffer
	writes int
}

func (c *capWC) Write(p []byte) (int, error) { c.writes++; return c.buf.Write(p) }
func (c *capWC) Close() error                { return nil }

func roundTrip(fr framing, classes []string, rng *rand.Rand, exh, nrand int, res *result) {
	w := &capWC{}
	send := fr.f(strings.NewReader(""), w)
	var recs [][]byte
	for i, cls := range classes {
		rec := recordOfClass(cls, fr.sep, i)
		before, nw := w.buf.Len(), w.writes
		err := send.Send(append([]byte(nil), rec...))
		if !legal(fr, rec) {
			if err == nil || w.buf.Len() != before || w.writes != nw {
				res.add(violation{"C11", fr.name, strconv.Quote(string(rec)), nil, false, fmt.Sprintf("Send of a record containing the split byte: err=%v, wrote %d bytes (must refuse and write nothing)", err, w.buf.Len()-before)})
				return
			}
			continue
		}
		if err != nil {
			res.add(violation{"C11", fr.name, strconv.Quote(string(rec[:min(len(rec), 40)])), nil, false, "Send failed: " + err.Error()})
			return
		}
		recs = append(recs, rec)
	}
	data := w.buf.Bytes()
	var want []Outcome
	for range recs {
		want = append(want, Outcome{K: "rec"})
	}
	// boundaries of interest for long streams: around every record end
	for _, cuts := range append(cutSets(len(data), rng, exh, nrand), boundaryCuts(data, recs, fr)...) {
		for _, eofWith := range []bool{false, true} {
			rd := &chunkReader{data: data, cuts: cuts, eofWith: eofWith}
			ch := fr.f(rd, nopWC{io.Discard})
			res.Evaluations++
			why := ""
			func() {
				defer func() {
					if p := recover(); p != nil {
						why = fmt.Sprintf("panic: %v", p)
					}
				}()
				for i, rec := range recs {
					b, err := ch.Recv()
					if err != nil {
						why = fmt.Sprintf("Recv #%d: error %v, want the %d-byte record", i+1, err, len(rec))
						return
					}
					if !bytes.Equal(b, rec) {
						why = fmt.Sprintf("Recv #%d: %d bytes differ from the %d-byte record sent (first 30: %q)", i+1, len(b), len(rec), b[:min(30, len(b))])
						return
					}
				}
				for k := 0; k < 2; k++ {
					b, err := ch.Recv()
					if err != io.EOF {
						why = fmt.Sprintf("after the last record: got (%q, %v), want io.EOF", b[:min(30, len(b))], err)
						return
					}
				}
			}()
			if why != "" {
				cs := cuts
				if len(cs) > 12 {
					cs = cs[:12]
				}
				res.add(violation{"C11", fr.name, fmt.Sprintf("records %v (%d stream bytes)", classes, len(data)), cs, eofWith, why})
				return
			}
		}
	}
}

func boundaryCuts(data []byte, recs [][]byte, fr framing) [][]int {
	if len(data) <= 14 {
		return nil
	}
	// a cut right before the last record's payload, the rest (possibly large) in one read
	var out [][]int
	if n := len(recs); n > 0 {
		last := len(recs[n-1])
		p := len(data) - last
		if fr.mode == "" {
			p = len(data) - last - 1
		}
		for _, d := range []int{-1, 0, 1} {
			if q := p + d; q > 0 && q < len(data) {
				out = append(out, []int{q})
			}
		}
		if p > 2 {
			out = append(out, []int{1, p})
		}
	}
	return out
}

func TestFrames(t *testing.T) {
	tp := os.Getenv("VERIF_TABLE")
	if tp == "" {
		t.Skip("no VERIF_TABLE")
	}
	var tab Table
	b, err := os.ReadFile(tp)
	if err != nil {
		t.Fatal(err)
	}
	if err := json.Unmarshal(b, &tab); err != nil {
		t.Fatal(err)
	}
	shard, _ := strconv.Atoi(os.Getenv("VERIF_SHARD"))
	nshard, _ := strconv.Atoi(os.Getenv("VERIF_NSHARD"))
	if nshard == 0 {
		nshard = 1
	}
	seed, _ := strconv.ParseUint(os.Getenv("VERIF_SEED"), 10, 64)
	thorough := os.Getenv("VERIF_TIER") == "thorough"
	which := os.Getenv("VERIF_WHICH") // C11 | C12
	rng := rand.New(rand.NewPCG(seed, uint64(shard)+7))
	res := &result{Classes: map[string]int{}}
	exh, nrand := 9, 3
	if thorough {
		exh, nrand = 13, 8
	}

	if which == "C12" {
		// (1) header decoder table
		for i, c := range tab.Header {
			if i%nshard != shard {
				continue
			}
			res.Cells++
			for _, fr := range headerFramings() {
				var sb strings.Builder
				for _, tk := range c.Toks {
					for _, sym := range tab.Tokens[tk-1] {
						sb.WriteString(symBytes(sym, fr.mime))
					}
				}
				want := map[string][]Outcome{"strict": c.Strict, "opt": c.Opt, "none": c.None}[fr.mode]
				mime := fr.mime
				conc := func(d []string) []byte {
					var sb strings.Builder
					for _, sym := range d {
						sb.WriteString(symBytes(sym, mime))
					}
					return []byte(sb.String())
				}
				res.Classes[want[0].K]++
				e2 := exh
				if sb.Len() > exh { // long streams: sampled fragmentations
					e2 = 0
				}
				runStream(fr, []byte(sb.String()), want, conc, rng, e2, nrand, res, "C12")
			}
			if len(res.Samples) < 3 && i%1500 == 7 {
				res.Samples = append(res.Samples, fmt.Sprint(c.Toks))
			}
		}
		// (2) split decoder table
		for i, c := range tab.Split {
			if i%nshard != shard {
				continue
			}
			res.Cells++
			for _, fr := range splitFramings() {
				conc := func(d []string) []byte {
					var o []byte
					for _, s := range d {
						o = append(o, s[0])
					}
					return o
				}
				var data []byte
				for _, s := range c.Stream {
					if s == "S" {
						data = append(data, fr.sep)
					} else {
						data = append(data, s[0])
					}
				}
				runStream(fr, data, c.Out, conc, rng, exh, nrand, res, "C12")
				// the same stream with "b" standing for a run of bytes as long as (longer than) the read buffer: the decoder
				// is defined on symbols, whatever their length - records (the unterminated last one too) spanning refills
				if k := i / nshard; k%6 == 0 { // (by position within the shard: the cost spreads over the workers)
					for _, n := range []int{[]int{4096, 5000, 4095, 8192}[(k/6)%4]} {
						long := func(d []string) []byte {
							var o []byte
							for _, s := range d {
								if s == "S" {
									o = append(o, fr.sep)
								} else if s == "b" {
									o = append(o, bytes.Repeat([]byte{'b'}, n)...)
								} else {
									o = append(o, s[0])
								}
							}
							return o
						}
						if ld := long(c.Stream); len(ld) > len(c.Stream) {
							runStream(fr, ld, c.Out, long, rng, 0, max(1, nrand/2), res, "C12")
						}
					}
				}
			}
		}
		// (3) absurd lengths: the payload is shorter than declared => an error, never a crash, never a short record
		if shard == 0 {
			for _, n := range []string{"16777216", "16777217", "33554432", "2147483648", "1099511627776", "4611686018427387904", "9223372036854775807", "9223372036854775808", "18446744073709551616"} {
				for _, pay := range []int{0, 3, 5000} {
					for _, fr := range headerFramings() {
						data := []byte("Content-Length: " + n + "\r\n\r\n" + strings.Repeat("x", pay))
						for _, eofWith := range []bool{false, true} {
							rd := &chunkReader{data: data, eofWith: eofWith}
							o, p := drive(fr.f(rd, nopWC{io.Discard}), 4)
							res.Evaluations++
							if p != nil {
								res.add(violation{"C12", fr.name, strconv.Quote(string(data[:min(40, len(data))])), nil, eofWith, fmt.Sprintf("panic: %v", p)})
							} else if len(o) == 0 || o[0].err == nil || isCT(o[0].err) {
								res.add(violation{"C12", fr.name, strconv.Quote(string(data[:min(40, len(data))])), nil, eofWith, fmt.Sprintf("declared %s bytes, %d present: Recv returned a %d-byte record without error", n, pay, len(o[0].data))})
							}
						}
					}
				}
			}
		}
		// (3b) sequences of declared lengths on ONE channel: the receive buffer a header channel keeps between records grows
		// and shrinks with them; whatever it does, each record (and a last one cut short) comes out as the format says
		{
			seqs := [][]int{{2400000, 1100000, 7}, {5 << 20, 1200000, 3, 2 << 20}, {600 << 10, 100, 700 << 10, 0, 40 << 10}, {3 << 20, 700 << 10, 1 << 20, 1<<20 + 1, 5},
				{9 << 20, 2 << 20, 600 << 10, 140 << 10, 30 << 10, 7 << 10}, {4<<20 + 1, 1 << 20, 1<<20 + 1}}
			for si, seq := range seqs {
				if si%nshard != shard {
					continue
				}
				for _, short := range []bool{false, true} { // short: the last payload lacks one byte
					for _, fr := range headerFramings() {
						var data []byte
						var want [][]byte
						for k, n := range seq {
							rec := bytes.Repeat([]byte{byte('a' + k)}, n)
							data = append(data, []byte(fmt.Sprintf("Content-Length: %d\r\n", n))...)
							if fr.mime != "" {
								data = append(data, []byte("Content-Type: "+fr.mime+"\r\n")...)
							}
							data = append(data, '\r', '\n')
							if short && k == len(seq)-1 && n > 0 {
								data = append(data, rec[:n-1]...)
							} else {
								data = append(data, rec...)
								want = append(want, rec)
							}
						}
						rd := &chunkReader{data: data, eofWith: si%2 == 0}
						o, p := drive(fr.f(rd, nopWC{io.Discard}), len(seq)+2)
						res.Evaluations++
						what := fmt.Sprintf("records of %v bytes on one channel (last one short: %v)", seq, short)
						if p != nil {
							res.add(violation{"C12", fr.name, what, nil, false, fmt.Sprintf("panic: %v", p)})
							continue
						}
						for k, w := range want {
							if k >= len(o) || (o[k].err != nil && !isCT(o[k].err)) || !bytes.Equal(o[k].data, w) {
								got := "nothing"
								if k < len(o) {
									got = fmt.Sprintf("%d bytes (first %.16q), err %v", len(o[k].data), o[k].data, o[k].err)
								}
								res.add(violation{"C12", fr.name, what, nil, false, fmt.Sprintf("Recv #%d: %s; want the %d-byte record", k+1, got, len(w))})
								break
							}
						}
						if len(o) > len(want) && (o[len(want)].err == nil || isCT(o[len(want)].err)) {
							res.add(violation{"C12", fr.name, what, nil, false, fmt.Sprintf("Recv #%d returned a %d-byte record where the stream has none", len(want)+1, len(o[len(want)].data))})
						}
					}
				}
			}
		}
		// (4) byte-level mutations of valid streams: no panic, terminates, nothing fabricated
		nm := 300
		if thorough {
			nm = 6000
		}
		for k := 0; k < nm; k++ {
			frs := append(headerFramings(), splitFramings()...)
			frs = append(frs, framing{"RawJSON", channel.RawJSON, "", "", 0})
			fr := frs[rng.IntN(len(frs))]
			w := &capWC{}
			s := fr.f(strings.NewReader(""), w)
			for j := 0; j < 1+rng.IntN(3); j++ {
				s.Send([]byte([]string{`{}`, `[1,2]`, `{"a":[{}]}`, `"x"`, `{"k":"v v"}`}[rng.IntN(5)]))
			}
			data := mutate(w.buf.Bytes(), rng)
			for _, cuts := range cutSets(len(data), rng, 0, 2) {
				rd := &chunkReader{data: data, cuts: cuts, eofWith: rng.IntN(2) == 0}
				o, p := drive(fr.f(rd, nopWC{io.Discard}), 64)
				res.Evaluations++
				why := ""
				if p != nil {
					why = fmt.Sprintf("panic: %v", p)
				} else if rd.reads > 100000 {
					why = "does not terminate"
				} else {
					pos := 0
					for _, x := range o {
						if len(x.data) == 0 {
							continue
						}
						i := bytes.Index(data[pos:], x.data)
						if i < 0 {
							why = fmt.Sprintf("record %q is not a substring of the remaining stream (fabricated or reordered bytes)", x.data)
							break
						}
						pos += i + len(x.data)
					}
				}
				if why != "" {
					res.add(violation{"C12", fr.name, strconv.Quote(string(data)), cuts, rd.eofWith, why})
				}
			}
		}
	}

	if which == "C11" {
		classes := []string{"empty", "nil", "one", "two", "cr", "lf", "nul", "comma", "hasSep", "utf8OfSep", "hibytes", "hdrlike", "b4095", "b4096", "b4097", "b70000"}
		if thorough {
			classes = append(classes, "m600k", "m1", "m5", "m16")
		}
		frs := append(headerFramings(), splitFramings()...)
		if shard == 0 {
			for _, fr := range append(frs, framing{"RawJSON", channel.RawJSON, "", "", 0}) {
				independentChannels(fr, res)
				fullDuplex(fr, res)
			}
		}
		// all sequences of <= 2 classes, and sampled triples
		var seqs [][]string
		for _, a := range classes {
			seqs = append(seqs, []string{a})
			for _, b := range classes {
				seqs = append(seqs, []string{a, b})
			}
		}
		ntr := 60
		if thorough {
			ntr = 600
		}
		for k := 0; k < ntr; k++ {
			seqs = append(seqs, []string{classes[rng.IntN(len(classes))], classes[rng.IntN(len(classes))], classes[rng.IntN(len(classes))]})
		}
		if thorough {
			seqs = append(seqs, []string{"m5", "one", "m5", "two"}, []string{"m16", "two"}, []string{"two", "m16"}, []string{"one", "m600k", "empty", "m600k", "cr"})
		} else {
			// the quick tier too crosses the size above which a header channel stops allocating up front, in both directions
			seqs = append(seqs, []string{"two", "m16"}, []string{"b70000", "m16", "one"}, []string{"m16", "b4097"})
			// ... and the sizes at which a header channel gives a large receive buffer up again: growing, shrinking, growing
			seqs = append(seqs, []string{"m600k", "two", "b4097"}, []string{"one", "m600k", "empty", "m600k", "cr"}, []string{"m1", "b70000", "one", "m600k"})
		}
		seqs = append(seqs, []string{"one", "mSepLate", "two", "mSepEnd", "b4097"}, []string{"mSepEnd", "mSepLate", "hasSep", "one"})
		for i, sq := range seqs {
			if i%nshard != shard {
				continue
			}
			res.Cells++
			for _, fr := range frs {
				big := false
				for _, c := range sq {
					if strings.HasPrefix(c, "m") {
						big = true
					}
				}
				e2, n2 := 12, nrand
				if big {
					n2 = 1
				}
				roundTrip(fr, sq, rng, e2, n2, res)
			}
			// RawJSON: self-delimiting JSON values and null-for-empty only
			jvals := map[string]string{"empty": ``, "one": `{}`, "two": `[1,2]`, "cr": `{"a":[{}]}`, "lf": `"x y"`, "nul": `{"k":"\u0000"}`, "comma": `[{"a":1},[]]`,
				"hdrlike": `"Content-Length: 3"`, "b4095": `"` + strings.Repeat("s", 4093) + `"`, "b4096": `"` + strings.Repeat("s", 4094) + `"`,
				"b4097": `"` + strings.Repeat("s", 4095) + `"`, "b70000": `["` + strings.Repeat("t", 69996) + `"]`,
				"m600k": `{"k":"` + strings.Repeat("u", 600<<10) + `"}`, "m1": `"` + strings.Repeat("v", 1<<20) + `"`, "m5": `["` + strings.Repeat("w", 5<<20) + `",5]`}
			ok := true
			var recs []string
			for _, c := range sq {
				v, has := jvals[c]
				if !has {
					ok = false
				}
				recs = append(recs, v)
			}
			if ok {
				rawRoundTrip(recs, rng, res)
			}
			directRoundTrip(sq, res)
		}
	}
	out, _ := json.Marshal(res)
	if p := os.Getenv("VERIF_OUT"); p != "" {
		os.WriteFile(p, out, 0o644)
	}
}

func rawRoundTrip(recs []string, rng *rand.Rand, res *result) {
	fr := framing{"RawJSON", channel.RawJSON, "", "", 0}
	w := &capWC{}
	s := fr.f(strings.NewReader(""), w)
	for _, r := range recs {
		if err := s.Send([]byte(r)); err != nil {
			res.add(violation{"C11", "RawJSON", strconv.Quote(r[:min(40, len(r))]), nil, false, "Send failed: " + err.Error()})
			return
		}
	}
	data := w.buf.Bytes()
	for _, cuts := range cutSets(len(data), rng, 11, 3) {
		for _, eofWith := range []bool{false, true} {
			rd := &chunkReader{data: data, cuts: cuts, eofWith: eofWith}
			ch := fr.f(rd, nopWC{io.Discard})
			res.Evaluations++
			why := ""
			for i, r := range recs {
				b, err := ch.Recv()
				if err != nil || !bytes.Equal(b, []byte(r)) {
					why = fmt.Sprintf("Recv #%d: (%q, %v), want record %q", i+1, b[:min(30, len(b))], err, r[:min(30, len(r))])
					break
				}
			}
			if why == "" {
				if b, err := ch.Recv(); err != io.EOF {
					why = fmt.Sprintf("after the last record: (%q, %v), want io.EOF", b, err)
				}
			}
			if why != "" {
				res.add(violation{"C11", "RawJSON", fmt.Sprintf("%d records, %d bytes", len(recs), len(data)), cuts[:min(12, len(cuts))], eofWith, why})
				return
			}
		}
	}
}

// gateWriter blocks every Write on entry (before it has looked at the bytes) until released: a slow connection.
type gateWriter struct {
	entered chan struct{}
	gate    chan struct{}
	buf     bytes.Buffer
	once    sync.Once
}

func (g *gateWriter) Write(p []byte) (int, error) {
	g.once.Do(func() { close(g.entered) })
	<-g.gate
	return g.buf.Write(p)
}
func (g *gateWriter) Close() error { return nil }

// independentChannels: two channels made by the same Framing value are used by two goroutines at the same time (two
// connections of one server, or the two directions of a full-duplex pair): what each transmits is its own record.
func independentChannels(fr framing, res *result) {
	recA, recB := []byte(`{"from":"A","pad":"aaaaaaaaaaaaaaaaaaaaaaaaaaaaaaaaaaaaaaaaaaaaaaaa"}`), []byte(`{"from":"B"}`)
	if fr.name != "RawJSON" { // plain text: legal for every split byte in use
		recA, recB = []byte("from-A-"+strings.Repeat("a", 60)), []byte("from-B")
	}
	wa := &gateWriter{entered: make(chan struct{}), gate: make(chan struct{})}
	wb := &capWC{}
	a, b := fr.f(strings.NewReader(""), wa), fr.f(strings.NewReader(""), wb)
	done := make(chan error, 1)
	go func() { done <- a.Send(recA) }()
	select {
	case <-wa.entered:
	case err := <-done: // a framing that does not write through (none here)
		done <- err
	case <-time.After(10 * time.Second):
		res.add(violation{"C11", fr.name, "two channels, one framing", nil, false, "Send never reached the writer"})
		return
	}
	errB := b.Send(recB)
	close(wa.gate)
	errA := <-done
	res.Evaluations++
	if errA != nil || errB != nil {
		res.add(violation{"C11", fr.name, "two channels, one framing", nil, false, fmt.Sprintf("Send errors: %v, %v", errA, errB)})
		return
	}
	for _, x := range []struct {
		who  string
		data []byte
		want []byte
	}{{"A", wa.buf.Bytes(), recA}, {"B", wb.buf.Bytes(), recB}} {
		got, err := fr.f(bytes.NewReader(x.data), nopWC{io.Discard}).Recv()
		if err != nil && !isCT(err) || !bytes.Equal(got, x.want) {
			res.add(violation{"C11", fr.name, "two channels, one framing", nil, false,
				fmt.Sprintf("channel %s transmitted %q (decodes to %q, err %v) for the record %q while the other channel of the same framing was sending", x.who, x.data, got, err, x.want)})
			return
		}
	}
}

// fullDuplex: one channel, both directions at once (what every client and server does with its channel): a Send is held
// inside the writer while records arrive and are received on the same channel. What is transmitted is the record that was
// sent, what is received are the records that came in - neither direction borrows the other's buffer.
func fullDuplex(fr framing, res *result) {
	mk := func(tag string, n int) []byte {
		if fr.name == "RawJSON" {
			return []byte(fmt.Sprintf(`{"dir":%q,"pad":"%s"}`, tag, strings.Repeat(tag[:1], n)))
		}
		return []byte(tag + "-" + strings.Repeat(tag[:1], n))
	}
	for _, sz := range [][3]int{{60, 30, 40}, {3000, 20, 2000}, {200, 3000, 10}, {5000, 100, 4090}} {
		out, in1, in2 := mk("out", sz[0]), mk("in", sz[1]), mk("next", sz[2])
		enc := &capWC{}
		ref := fr.f(strings.NewReader(""), enc)
		if ref.Send(in1) != nil || ref.Send(in2) != nil {
			res.add(violation{"C11", fr.name, "full duplex", nil, false, "harness: the reference channel refused a plain record"})
			return
		}
		gw := &gateWriter{entered: make(chan struct{}), gate: make(chan struct{})}
		ch := fr.f(bytes.NewReader(enc.buf.Bytes()), gw)
		done := make(chan error, 1)
		go func() { done <- ch.Send(out) }()
		select {
		case <-gw.entered:
		case <-time.After(10 * time.Second):
			res.add(violation{"C11", fr.name, "full duplex", nil, false, "Send never reached the writer"})
			return
		}
		g1, e1 := ch.Recv()
		g1 = append([]byte(nil), g1...)
		g2, e2 := ch.Recv()
		g2 = append([]byte(nil), g2...)
		close(gw.gate)
		es := <-done
		res.Evaluations++
		what := fmt.Sprintf("full duplex (a %d-byte record being sent while records of %d and %d bytes arrive)", len(out), len(in1), len(in2))
		if es != nil || (e1 != nil && !isCT(e1)) || (e2 != nil && !isCT(e2)) {
			res.add(violation{"C11", fr.name, what, nil, false, fmt.Sprintf("errors: Send %v, Recv %v, %v", es, e1, e2)})
			return
		}
		if !bytes.Equal(g1, in1) || !bytes.Equal(g2, in2) {
			res.add(violation{"C11", fr.name, what, nil, false, fmt.Sprintf("received %.60q and %.60q, what came in was %.60q and %.60q", g1, g2, in1, in2)})
			return
		}
		sent, err := fr.f(bytes.NewReader(gw.buf.Bytes()), nopWC{io.Discard}).Recv()
		if (err != nil && !isCT(err)) || !bytes.Equal(sent, out) {
			res.add(violation{"C11", fr.name, what, nil, false, fmt.Sprintf("transmitted %.80q (decodes to %.60q, err %v) for the record %.60q", gw.buf.Bytes(), sent, err, out)})
			return
		}
	}
}

func directRoundTrip(classes []string, res *result) {
	c, s := channel.Direct()
	done := make(chan string, 1)
	var recs [][]byte
	for i, cls := range classes {
		if strings.HasPrefix(cls, "m") {
			return
		}
		recs = append(recs, recordOfClass(cls, 0, i))
	}
	go func() {
		for i, r := range recs {
			b, err := s.Recv()
			if err != nil || !bytes.Equal(b, r) {
				done <- fmt.Sprintf("Recv #%d: (%d bytes, %v)", i+1, len(b), err)
				return
			}
		}
		if _, err := s.Recv(); err != io.EOF {
			done <- fmt.Sprintf("after close: %v, want io.EOF", err)
			return
		}
		done <- ""
	}()
	for _, r := range recs {
		c.Send(r)
	}
	c.Close()
	res.Evaluations++
	if why := <-done; why != "" {
		res.add(violation{"C11", "Direct", fmt.Sprint(classes), nil, false, why})
	}
}

func mutate(b []byte, rng *rand.Rand) []byte {
	m := append([]byte(nil), b...)
	for k := 0; k < 1+rng.IntN(3); k++ {
		switch rng.IntN(6) {
		case 0:
			m = m[:rng.IntN(len(m)+1)]
		case 1:
			if len(m) > 0 {
				m[rng.IntN(len(m))] ^= byte(1 << rng.IntN(8))
			}
		case 2:
			if len(m) > 0 {
				i := rng.IntN(len(m))
				m = append(m[:i], m[i+1:]...)
			}
		case 3:
			i := rng.IntN(len(m) + 1)
			cs := []byte("\r\n:0 9-{\x00")
			c := cs[rng.IntN(len(cs))]
			m = append(m[:i], append([]byte{c}, m[i:]...)...)
		case 4:
			m = bytes.Replace(m, []byte("Content-Length: "), []byte("Content-Length: 9"), 1)
		case 5:
			m = bytes.Replace(m, []byte("\r\n\r\n"), []byte("\n\n"), 1)
		}
	}
	return m
}
