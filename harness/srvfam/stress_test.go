package srvfam

// A free-running stress on the real Server (no bubble, no gates): what happens in windows no hook marks cannot be
// steered, only tried often.  Calls are cancelled (Server.CancelRequest) at a random instant within a few microseconds
// of their dispatch - before the slot is asked for, while it is being granted, just after - one at a time on a server
// with one slot (and with two).  Whatever the race does to the cancelled call, the slot is there for the next one: an
// uncancelled call right behind must run.  The verdict is a call that does not come back although nothing is executing.

import (
	"context"
	"encoding/json"
	"fmt"
	"math/rand/v2"
	"os"
	"strconv"
	"sync/atomic"
	"testing"
	"time"

	"github.com/creachadair/jrpc2"
	"github.com/creachadair/jrpc2/handler"
	"github.com/creachadair/jrpc2/server"
)

type countingAssigner struct {
	inner jrpc2.Assigner
	n     atomic.Int64
}

func (c *countingAssigner) Assign(ctx context.Context, m string) jrpc2.Handler {
	c.n.Add(1)
	return c.inner.Assign(ctx, m)
}

func TestStressSlots(t *testing.T) {
	ms, _ := strconv.Atoi(os.Getenv("VERIF_STRESS_MS"))
	if ms == 0 {
		t.Skip()
	}
	seed, _ := strconv.ParseUint(os.Getenv("VERIF_SEED"), 10, 64)
	type out struct {
		Iterations int      `json:"iterations"`
		Cancelled  int      `json:"cancelled_before_running"`
		Violations []string `json:"violations"`
	}
	var res out
	for _, conc := range []int{1, 2} {
		rng := rand.New(rand.NewPCG(seed, uint64(conc)))
		asg := &countingAssigner{inner: handler.Map{"h": handler.New(func(context.Context) (string, error) { return "ok", nil })}}
		loc := server.NewLocal(asg, &server.LocalOptions{Server: &jrpc2.ServerOptions{Concurrency: conc}})
		deadline := time.Now().Add(time.Duration(ms/2) * time.Millisecond)
		id := 0
		ok := true
		for ok && time.Now().Before(deadline) {
			for k := 0; k < 200 && ok; k++ {
				id++
				res.Iterations++
				seen := asg.n.Load()
				spin := rng.IntN(6000) // nanoseconds, roughly
				done := make(chan error, 1)
				go func() { _, err := loc.Client.Call(context.Background(), "h", nil); done <- err }()
				for asg.n.Load() == seen { // the request has been dispatched (assigned)
				}
				for t0 := time.Now(); time.Since(t0) < time.Duration(spin); {
				}
				loc.Server.CancelRequest(strconv.Itoa(id))
				select {
				case err := <-done:
					if err != nil {
						res.Cancelled++
					}
				case <-time.After(20 * time.Second):
					res.Violations = append(res.Violations, fmt.Sprintf("Concurrency %d: call %d (cancelled about %d ns after its dispatch) never returned", conc, id, spin))
					ok = false
				}
			}
			// nothing is executing now: a call that nobody cancels runs, and so do Concurrency of them side by side
			for j := 0; j < conc && ok; j++ {
				id++
				ctx, cancel := context.WithTimeout(context.Background(), 20*time.Second)
				_, err := loc.Client.Call(ctx, "h", nil)
				cancel()
				if err != nil {
					res.Violations = append(res.Violations, fmt.Sprintf("Concurrency %d: after %d calls with racing cancellations an uncancelled call does not run (%v) although nothing is executing: a slot was lost", conc, id, err))
					ok = false
				}
			}
		}
		if ok {
			loc.Close()
		}
	}
	b, _ := json.Marshal(res)
	if p := os.Getenv("VERIF_OUT"); p != "" {
		os.WriteFile(p, b, 0o644)
	}
}
