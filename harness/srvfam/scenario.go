// Package srvfam drives a real jrpc2.Server through scenarios generated from
// the TLA+ model ServerImpl (or hand-written ones) inside a testing/synctest
// bubble and records the trace of observable events.  It contains no oracle.
package srvfam

import (
	"context"
	"encoding/json"
	"errors"
	"fmt"
	"io"
	"os"
	"sort"
	"strconv"
	"strings"
	"sync"
	"sync/atomic"
	"testing"
	"testing/synctest"

	"github.com/creachadair/jrpc2"
	"github.com/creachadair/jrpc2/channel"
	"verif/harness/vh"
)

// A Member is an abstract member of an inbound record (see ServerImpl.tla).
type Member struct {
	K     string `json:"k"`     // call | note | inv | reply
	ID    int    `json:"id"`    // 0 = absent
	M     string `json:"m"`     // ok | nf | rpc | info
	Notey bool   `json:"notey"` // for inv: method present and no id
	Var   int    `json:"var"`   // concretisation variant
}

// A Step is one action of a scenario.
type Step struct {
	A     string   `json:"a"`
	Site  string   `json:"site,omitempty"`
	Tag   string   `json:"tag,omitempty"`
	ID    string   `json:"id,omitempty"`
	Out   string   `json:"out,omitempty"`
	C     string   `json:"c,omitempty"`
	Kind  string   `json:"kind,omitempty"` // send: msg | garbage | empty
	Arr   bool     `json:"arr,omitempty"`
	Mem   []Member `json:"mem,omitempty"`
	N     int      `json:"n,omitempty"`
	Raw   string   `json:"raw,omitempty"`   // send: literal record instead of Mem
	Soft  bool     `json:"soft,omitempty"`  // gate: absence of the goroutine is not a divergence
	Async bool     `json:"async,omitempty"` // callback from a handler that does not wait for it
	From  string   `json:"from,omitempty"`  // callback/notify issued from the handler with this tag
	NoCtx bool     `json:"noctx,omitempty"` // callback: issue it with context.Background() (a context that can never end)
	Proj  *Proj    `json:"proj,omitempty"`  // the model's state after this step, as far as VerifSnapshot shows it
}

// Proj is the projection of a ServerImpl state on what VerifSnapshot exposes.
type Proj struct {
	Qlen      int      `json:"qlen"`
	Reserved  []string `json:"reserved"`
	Callbacks []string `json:"callbacks"`
	Running   bool     `json:"running"`
}

// Opts are the server options of a scenario.
type Opts struct {
	Conc         int  `json:"conc"`
	Push         bool `json:"push"`
	NoBuiltin    bool `json:"nobuiltin"`
	RecvUnblocks bool `json:"recvUnblocks"`
	Free         bool `json:"free"`    // free-running gates
	BaseCtx      bool `json:"basectx"` // ServerOptions.NewContext hands out a context the scenario can end ("baseend")
}

// A Scenario is a sequence of steps.
type Scenario struct {
	Name  string `json:"name"`
	Seed  uint64 `json:"seed"`
	Opts  Opts   `json:"opts"`
	Steps []Step `json:"steps"`
}

type hcmd struct {
	op  string // ret | callback | notify
	arg string
}

type runner struct {
	t     *testing.T
	sc    *Scenario
	rec   *vh.Recorder
	sched *vh.Sched
	srv   *jrpc2.Server
	ch    *vh.VChan
	gen   int
	nsend int

	hgate      map[string]chan hcmd
	cbCancel   map[string]context.CancelFunc
	logCancel  atomic.Pointer[logCancel]
	batchOf    map[int64]string // goroutine id -> tag of first member of its batch
	assigned   []*jrpc2.Request // every request in assignment order (srv.assign)
	badPush    bool             // pushes carry parameters that cannot be marshalled (step "badpush")
	endedPush  bool             // pushes are issued with a context that has already ended (step "endedpush")
	baseCtx    context.Context
	nbase      atomic.Int64
	baseCancel context.CancelFunc
	waitDone   chan struct{}
	stats      map[string]int
	running    map[string]bool // tags of handlers between HStart and HExit
	rmu        sync.Mutex
}

func (r *runner) gateL(tag string) chan hcmd {
	r.rmu.Lock()
	defer r.rmu.Unlock()
	return r.gate(tag)
}

func (r *runner) gate(tag string) chan hcmd {
	g := r.hgate[tag]
	if g == nil {
		g = make(chan hcmd, 8)
		r.hgate[tag] = g
	}
	return g
}

type baseKey struct{}

// handler is the single gated handler behind every known method.
func (r *runner) handler(ctx context.Context, req *jrpc2.Request) (any, error) {
	tag := vh.TagOf(json.RawMessage(req.ParamString()))
	inb := jrpc2.InboundRequest(ctx)
	base := "" // the serial number of the base context this request's context was made from (where NewContext is in use)
	if n, ok := ctx.Value(baseKey{}).(int64); ok {
		base = strconv.FormatInt(n, 10)
	}
	r.rec.Log("HStart", "tag", tag, "cx", ctx.Err() != nil, "inb", inb == req, "base", base)
	r.rmu.Lock()
	r.running[tag] = true
	g := r.gate(tag)
	r.rmu.Unlock()
	cancelled := false
	for {
		var c hcmd
		if cancelled {
			c = <-g
		} else {
			select {
			case c = <-g:
			case <-ctx.Done():
				cancelled = true
				r.rec.Log("HCancel", "tag", tag)
				continue
			}
		}
		switch c.op {
		case "callback":
			r.doCallback(ctx, jrpc2.ServerFromContext(ctx), c.arg)
		case "callback-async": // issued with the handler's context values, but the handler stays responsive (steered runs)
			go r.doCallback(context.WithoutCancel(ctx), jrpc2.ServerFromContext(ctx), c.arg)
		case "notify":
			r.doNotify(ctx, jrpc2.ServerFromContext(ctx))
		default: // ret
			out := c.arg
			r.rec.Log("HExit", "tag", tag, "out", out)
			r.rmu.Lock()
			delete(r.running, tag)
			r.rmu.Unlock()
			return outcome(tag, out, ctx)
		}
	}
}

func outcome(tag, out string, ctx context.Context) (any, error) {
	switch {
	case out == "ok":
		return tag, nil
	case out == "ctxerr":
		if err := ctx.Err(); err != nil {
			return nil, err
		}
		return nil, context.Canceled
	case out == "err:plain":
		return nil, errors.New("tag=" + tag + " plain failure")
	case out == "err:baddata": // an *Error whose data is not valid JSON: it cannot be encoded as it stands
		return nil, &jrpc2.Error{Code: 7, Message: "tag=" + tag + " failed", Data: json.RawMessage(`{"bad":`)}
	case out == "rawbad": // a result the handler encoded itself - badly: the reply says so (an internal error), it is not passed on
		return json.RawMessage(`{"tag":"` + tag + `","a":}`), nil
	case out == "rawok": // a result the handler encoded itself: passed on as a value of its own
		return json.RawMessage(" {\"tag\" :\t\"" + tag + "\" }\n"), nil
	case strings.HasPrefix(out, "err:"):
		n, _ := strconv.Atoi(out[4:])
		return nil, jrpc2.Errorf(jrpc2.Code(n), "tag=%s failed", tag)
	}
	return tag, nil
}

type logCancel struct {
	text string
	f    func()
}

func (r *runner) doCallback(ctx context.Context, srv *jrpc2.Server, c string) {
	cctx := ctx
	if ctx != noCtx { // noCtx: the caller's context can never end (Done() == nil)
		var cancel context.CancelFunc
		if c == "cbB" { // a context that ends with a private cause: Callback still reports the context's own error
			c2, cc := context.WithCancelCause(ctx)
			cctx, cancel = c2, func() { cc(errors.New("harness: private cause of " + c)) }
		} else {
			cctx, cancel = context.WithCancel(ctx)
		}
		r.cbCancel[c] = cancel
	} else {
		cctx = context.Background()
	}
	r.rec.Log("CallbackB", "c", c)
	r.rmu.Lock()
	ended := r.endedPush
	r.rmu.Unlock()
	if ended && ctx != noCtx { // the context has ended before the call is made: the request is transmitted all the same
		r.rec.Log("CtxEnd", "c", c)
		r.cbCancel[c]()
	}
	rsp, err := srv.Callback(cctx, "cbm", r.pushParams(c))
	res, tag, code := "reply", "", 0
	switch {
	case err == nil:
		var s string
		rsp.UnmarshalResult(&s)
		tag = s
	case errors.Is(err, jrpc2.ErrPushUnsupported):
		res = "unsupported"
	case errors.Is(err, jrpc2.ErrConnClosed):
		res = "connclosed"
	case errors.Is(err, context.Canceled), errors.Is(err, context.DeadlineExceeded):
		res = "ctxerr"
	default:
		var je *jrpc2.Error
		if errors.As(err, &je) {
			res, code = "rpcerror", int(je.Code)
			tag = vh.TagOf(json.RawMessage(strconv.Quote(je.Message)))
		} else {
			res = "error"
		}
	}
	r.rec.Log("CallbackE", "c", c, "res", res, "tag", tag, "code", code)
}

func (r *runner) doNotify(ctx context.Context, srv *jrpc2.Server) {
	r.rec.Log("NotifyB")
	r.rmu.Lock()
	ended := r.endedPush
	r.rmu.Unlock()
	if ended { // Notify does not look at its context: an ended one changes nothing
		c2, cancel := context.WithCancel(ctx)
		cancel()
		ctx = c2
	}
	err := srv.Notify(ctx, "pn", r.pushParams("pn"))
	res := "ok"
	switch {
	case err == nil:
	case errors.Is(err, jrpc2.ErrPushUnsupported):
		res = "unsupported"
	case errors.Is(err, jrpc2.ErrConnClosed):
		res = "connclosed"
	default:
		res = "error"
	}
	r.rec.Log("NotifyE", "res", res)
}

// pushParams are the parameters of a pushed request; with badPush set they cannot be marshalled (a server without
// AllowPush refuses the push all the same: ErrPushUnsupported, unconditionally).
func (r *runner) pushParams(tag string) any {
	r.rmu.Lock()
	defer r.rmu.Unlock()
	if r.badPush {
		return map[string]any{"tag": tag, "c": make(chan int)}
	}
	return map[string]string{"tag": tag}
}

// noCtx marks a callback issued with a context that can never end.
var noCtx = context.WithValue(context.Background(), struct{ k string }{"noctx"}, true)

type assigner struct{ r *runner }

func (a assigner) Assign(ctx context.Context, method string) jrpc2.Handler {
	switch method {
	case "h", "rpc.h":
		return a.r.handler
	}
	return nil
}
func (a assigner) Names() []string { return []string{"h"} }

// Concrete produces the JSON text and the abstract description of a member.
func Concrete(m Member, tag string) (string, map[string]any) {
	meth := map[string]string{"ok": "h", "nf": "nope", "rpc": "rpc.nope", "info": "rpc.serverInfo"}[m.M]
	if meth == "" {
		meth = "h"
	}
	id := ""
	if m.ID >= 100 { // ids from 100 up are STRING ids: 101 is "1" - not the same id as the number 1
		id = strconv.Quote(strconv.Itoa(m.ID - 100))
	} else if m.ID != 0 {
		id = strconv.Itoa(m.ID)
	}
	abs := map[string]any{"tag": tag, "k": m.K, "id": id, "m": m.M, "notey": m.Notey, "echo": id}
	params := fmt.Sprintf(`{"tag":%q}`, tag)
	var txt string
	switch m.K {
	case "call": // three spellings of the same request: plain; members reordered with insignificant whitespace; names escaped
		switch m.Var % 3 {
		case 1:
			txt = fmt.Sprintf("{ \"params\" : %s ,\r\n\t\"method\" : %q , \"id\" : %s , \"jsonrpc\" : \"2.0\" }", params, meth, id)
		case 2:
			txt = fmt.Sprintf(`{"jsonrpc":"2\u002e0","\u0069d":%s,"m\u0065thod":%q,"par\u0061ms":%s}`, id, meth, params)
		default:
			txt = fmt.Sprintf(`{"jsonrpc":"2.0","id":%s,"method":%q,"params":%s}`, id, meth, params)
		}
	case "note":
		if m.Var%2 == 1 {
			txt = fmt.Sprintf(`{"jsonrpc":"2.0","id":null,"method":%q,"params":%s}`, meth, params)
		} else {
			txt = fmt.Sprintf(`{"jsonrpc":"2.0","method":%q,"params":%s}`, meth, params)
		}
	case "reply": // a result or an error; spelled strictly, or - still recognisably a reply - without the version, with another, with an unknown member
		body := fmt.Sprintf(`"result":%q`, tag)
		abs["err"] = m.Var%2 == 1
		if m.Var%2 == 1 {
			body = fmt.Sprintf(`"error":{"code":-7,"message":"tag=%s refused"}`, tag)
		}
		switch m.Var % 6 {
		case 2, 5:
			txt = fmt.Sprintf(`{"id":%s,%s}`, id, body)
		case 3:
			txt = fmt.Sprintf(`{"jsonrpc":"2.0","id":%s,%s,"took_ms":3}`, id, body)
		case 4:
			txt = fmt.Sprintf(`{"jsonrpc":"1.0","id":%s,%s}`, id, body)
		default:
			txt = fmt.Sprintf(`{"jsonrpc":"2.0","id":%s,%s}`, id, body)
		}
	case "inv":
		switch {
		case m.ID != 0: // invalid member that carries a usable id
			switch m.Var % 3 {
			case 0:
				txt = fmt.Sprintf(`{"jsonrpc":"1.0","id":%s,"method":%q,"params":%s}`, id, meth, params)
			case 1:
				txt = fmt.Sprintf(`{"jsonrpc":"2.0","id":%s,"method":%q,"params":%s,"extra":1}`, id, meth, params)
			default:
				txt = fmt.Sprintf(`{"jsonrpc":"2.0","id":%s,"method":%q,"params":7}`, id, meth)
			}
		case m.Notey: // method present, no usable id: isNotification() holds
			switch m.Var % 3 {
			case 0:
				txt = fmt.Sprintf(`{"jsonrpc":"1.0","method":%q,"params":%s}`, meth, params)
			case 1:
				txt = fmt.Sprintf(`{"jsonrpc":"2.0","id":true,"method":%q,"params":%s}`, meth, params)
			default:
				txt = fmt.Sprintf(`{"method":%q,"params":%s}`, meth, params)
			}
		default: // no method, no id
			switch m.Var % 3 {
			case 0:
				txt = `{"jsonrpc":"2.0","params":` + params + `}`
			case 1:
				txt = `17`
			default:
				txt = `{"jsonrpc":"2.0","id":null}`
			}
		}
		abs["echo"] = id
	}
	return txt, abs
}

func (r *runner) send(st Step) {
	r.nsend++
	n := r.nsend
	if st.N != 0 {
		n = st.N
	}
	meta := vh.Event{"n": n, "kind": st.Kind, "arr": st.Arr, "gen": r.gen}
	var txt string
	switch st.Kind {
	case "garbage":
		txt = []string{`{"jsonrpc":"2.0",`, `nonsense`, `[1,2`, `{"a":}`}[int(r.sc.Seed+uint64(n))%4]
		meta["mem"] = []any{}
	case "empty":
		txt = `[]`
		meta["mem"] = []any{}
	default:
		var parts []string
		var abs []any
		for i, m := range st.Mem {
			tag := fmt.Sprintf("m%d.%d", n, i+1)
			t, a := Concrete(m, tag)
			parts = append(parts, t)
			abs = append(abs, a)
		}
		if st.Arr {
			// insignificant whitespace inside the array as well
			in := []string{"", " ", "\r\n", "\t"}[(n+len(parts))%4]
			txt = "[" + in + strings.Join(parts, in+","+in) + in + "]"
		} else {
			txt = parts[0]
		}
		meta["mem"] = abs
	}
	if st.Kind != "garbage" {
		// insignificant JSON whitespace around the record (space, tab, LF, CR) changes nothing
		txt = []string{"", " ", "\n", "\r\n", "\t", " \n ", "\r", "\n\n"}[(n+int(r.sc.Seed))%8] + txt + []string{"", " ", "\r\n"}[n%3]
	}
	if st.Raw != "" {
		txt = st.Raw
	}
	r.ch.Push([]byte(txt), meta)
}

func (r *runner) startWaitStatus() {
	srv, gen := r.srv, r.gen
	done := make(chan struct{})
	r.waitDone = done
	go func() {
		st := srv.WaitStatus()
		e := "nil"
		if st.Err != nil {
			e = "err"
		}
		r.rec.Log("WaitStatus", "gen", gen, "stopped", st.Stopped, "closed", st.Closed, "err", e)
		close(done)
	}()
}

func (r *runner) waitReturned() bool {
	select {
	case <-r.waitDone:
		return true
	default:
		return false
	}
}

func (r *runner) observe(site string, args []any) {
	// called on the library goroutine for pass-through sites we only observe
}

// batchTag names the batch whose first request is first and which has n members: "m<k>", where k is the
// record number carried by any member's tag (an invalid first member may carry no parameters at all).
func (r *runner) batchTag(first, n any) string {
	req, _ := first.(*jrpc2.Request)
	cnt, _ := n.(int)
	for i, a := range r.assigned {
		if a != req {
			continue
		}
		for j := i; j < i+cnt && j < len(r.assigned); j++ {
			if tg := tagOfReq(r.assigned[j]); strings.HasPrefix(tg, "m") {
				if k, _, ok := strings.Cut(tg, "."); ok {
					return k
				}
			}
		}
	}
	k, _, _ := strings.Cut(tagOfReq(first), ".")
	return k
}

func (r *runner) batchOfGid(gid int64) string {
	r.rmu.Lock()
	defer r.rmu.Unlock()
	return r.batchOf[gid]
}

func tagOfReq(a any) string {
	if req, ok := a.(*jrpc2.Request); ok && req != nil {
		return vh.TagOf(json.RawMessage(req.ParamString()))
	}
	return ""
}

// pickFrom resolves From == "auto" to the tag of a running handler (or "").
func (r *runner) pickFrom(from string) string {
	if from != "auto" {
		return from
	}
	r.rmu.Lock()
	defer r.rmu.Unlock()
	var tags []string
	for t := range r.running {
		tags = append(tags, t)
	}
	if len(tags) == 0 {
		return ""
	}
	sort.Strings(tags)
	return tags[r.sched.Rng.IntN(len(tags))]
}

func (r *runner) doStep(st Step) {
	s := r.sched
	st.From = r.pickFrom(st.From)
	switch st.A {
	case "send":
		r.send(st)
	case "peerclose":
		if !r.ch.PeerClosed() {
			r.rec.Log("PeerClose")
			r.ch.PeerClose()
		}
	case "recverr":
		r.ch.PushErr(nil, vh.ErrInjected, nil)
	case "recvclosing": // Recv fails with a closing-class error although nobody closed this channel
		r.ch.PushErr(nil, vh.ErrClosingInjected, nil)
	case "recveofdata": // data delivered together with io.EOF
		r.nsend++
		tag := fmt.Sprintf("m%d.1", r.nsend)
		t, a := Concrete(st.Mem[0], tag)
		r.ch.PushErr([]byte(t), io.EOF, vh.Event{"n": r.nsend, "kind": "msg", "arr": false, "gen": r.gen, "mem": []any{a}, "eof": true})
	case "sendfail":
		r.rec.Log("SendFailArmed")
		r.ch.FailSends()
	case "sendheal": // the failure was transient
		r.ch.HealSends()
		r.rec.Log("SendHealed")
	case "closefail": // Close will close the channel and complain: how the connection ended is what ended it, not this
		r.ch.FailClose(errors.New("transport: error while closing"))
	case "stop":
		if s.Holding() { // whoever is held may hold the server's lock: Stop waits for it, on a goroutine of its own
			go func() { r.rec.Log("StopB"); r.srv.Stop(); r.rec.Log("StopE") }()
			break
		}
		r.rec.Log("StopB")
		r.srv.Stop()
		r.rec.Log("StopE")
	case "endedpush": // from now on pushes are issued with a context that has already ended
		r.rmu.Lock()
		r.endedPush = true
		r.rmu.Unlock()
	case "badpush": // from now on pushed requests carry parameters that cannot be marshalled
		r.rmu.Lock()
		r.badPush = true
		r.rmu.Unlock()
	case "baseend": // the context every request context derives from ends
		if r.baseCancel != nil {
			r.rec.Log("BaseEnd")
			r.baseCancel()
		} else {
			r.stats["diverged"]++
		}
	case "cancel":
		r.rec.Log("CancelB", "id", st.ID)
		r.srv.CancelRequest(st.ID)
		r.rec.Log("CancelE", "id", st.ID)
	case "notify":
		if st.From != "" {
			r.gateL(st.From) <- hcmd{"notify", ""}
		} else {
			r.doNotify(context.Background(), r.srv)
		}
	case "callback":
		if st.From != "" && st.Async {
			r.gateL(st.From) <- hcmd{"callback-async", st.C}
		} else if st.From != "" {
			r.gateL(st.From) <- hcmd{"callback", st.C}
		} else if st.NoCtx {
			go r.doCallback(noCtx, r.srv, st.C)
		} else {
			go r.doCallback(context.Background(), r.srv, st.C)
		}
	case "ctxend":
		if c := r.cbCancel[st.C]; c != nil {
			r.rec.Log("CtxEnd", "c", st.C)
			c()
		}
	case "hret":
		r.gateL(st.Tag) <- hcmd{"ret", st.Out}
	case "gate":
		ok := s.Release(func(p *vh.Parked) bool {
			switch st.Site {
			case "srv.next.lock":
				return p.Site == "srv.next.lock" || p.Site == "srv.next.relock"
			case "srv.invoke.acquire":
				return p.Site == st.Site && len(p.Args) > 1 && tagOfReq(p.Args[1]) == st.Tag
			case "srv.deliver.lock":
				k, _, _ := strings.Cut(st.Tag, ".") // one record is one batch
				return p.Site == st.Site && r.batchOfGid(p.Gid) == k
			case "srv.waitcb.lock":
				return p.Site == st.Site && len(p.Args) > 1 && fmt.Sprint(p.Args[1]) == st.ID
			}
			return p.Site == st.Site
		})
		if !ok && st.Soft {
			s.Diverged--
		} else if !ok {
			r.stats["diverged"]++
		}
	case "probe":
		var extra []func()
		switch s.Rng.IntN(4) {
		case 0:
			extra = append(extra, func() { r.rec.Log("StopB"); r.srv.Stop(); r.rec.Log("StopE") })
		case 1:
			extra = append(extra, func() { r.doNotify(context.Background(), r.srv) })
		case 2:
			extra = append(extra, func() { r.rec.Log("CancelB", "id", "1"); r.srv.CancelRequest("1"); r.rec.Log("CancelE", "id", "1") })
		}
		kind := "send"
		if st.Kind == "close" {
			kind = "close"
		}
		if s.Probe(kind, extra) {
			r.stats["probes"]++
		}
	case "holdop": // park whoever next enters Channel.Send (or Close) inside it, and keep it there while the scenario goes on
		kind := "send"
		if st.Kind == "close" {
			kind = "close"
		}
		s.HoldOp(kind)
	case "logcancel": // the context of callback st.C ends at the moment the next log line containing st.Kind is written (by whoever writes it, where it writes it)
		if c := r.cbCancel[st.C]; c != nil {
			name := st.C
			r.logCancel.Store(&logCancel{text: st.Kind, f: func() { r.rec.Log("CtxEnd", "c", name); c() }})
		}
	case "holdlog": // hold whoever writes the next log line containing st.Kind, where it writes it
		s.HoldLog(st.Kind)
	case "unhold":
		s.Unhold()
	case "rand":
		for i := 0; i < max(1, st.N); i++ {
			if !s.ReleaseRandom() {
				break
			}
		}
	case "drain":
		s.Drain(10000)
	case "releaseall": // let every running handler return
		r.rmu.Lock()
		for tag := range r.running {
			select {
			case r.gate(tag) <- hcmd{"ret", "ok"}:
			default:
			}
		}
		r.rmu.Unlock()
	case "waitstatus":
		// WaitStatus was called at Start; nothing to do: its return is logged when it happens.
	case "restart":
		if r.waitReturned() {
			r.gen++
			r.ch = vh.NewVChan(fmt.Sprintf("s%d", r.gen), r.rec, r.sc.Opts.RecvUnblocks)
			name := r.ch.Name
			r.ch.InSendHook = func() { s.InOp("send", name) }
			r.ch.InCloseHook = func() { s.InOp("close", name) }
			r.rec.Log("Start", "gen", r.gen, "ch", r.ch.Name)
			r.srv.Start(r.ch)
			r.startWaitStatus()
		} else {
			r.stats["diverged"]++
		}
	case "advance":
		// let the fake clock run: only harness timers exist; nothing to do
	default:
		r.t.Fatalf("unknown step %q", st.A)
	}
	s.Settle()
	if st.Proj != nil && r.stats["diverged"]+s.Diverged == 0 && r.stats["drift"] == 0 && !s.Holding() { // (the snapshot takes the server's lock)
		// binding of the Impl spec: the real server's bookkeeping after this step must be the model's
		// (diagnostic only: a mismatch is reported as conformance drift, never as a verdict)
		sn := r.srv.VerifSnapshot()
		if sn.QueueLen != st.Proj.Qlen || fmt.Sprint(sn.Reserved) != fmt.Sprint(st.Proj.Reserved) ||
			fmt.Sprint(sn.Callbacks) != fmt.Sprint(st.Proj.Callbacks) || sn.Running != st.Proj.Running {
			r.stats["drift"]++
			r.rec.Log("Drift", "step", st.A, "site", st.Site, "model", fmt.Sprintf("%+v", *st.Proj), "code", fmt.Sprintf("%+v", sn))
		} else {
			r.stats["projok"]++
		}
	}
	if len(s.Waiting) == 0 {
		if os.Getenv("VERIF_DEBUG_SETTLE") != "" {
			r.rec.Log("Quiescent", "holding", s.Holding(), "useext", s.UseExt, "step", st.A, "iters", vh.LastIters)
		} else {
			r.rec.Log("Quiescent")
		}
	} else if s.Hold != nil && s.Others() == 0 {
		// nothing can move except the channel operation the scenario holds: what does not need that operation
		// (nor the lock its caller may hold) to finish must have happened all the same
		r.rec.Log("QuiescentOp", "op", s.Hold.Site)
	}
}

// Run executes one scenario in a fresh bubble and hands its trace to emit,
// which is called inside the bubble: if goroutines are left blocked the bubble
// cannot be left without a deadlock panic, so emit must save the trace first.
func Run(t *testing.T, sc *Scenario, emit func(evs []vh.Event, stats map[string]int)) {
	stats := map[string]int{}
	vh.SetClosedSentinel(channel.ErrClosed)
	synctest.Test(t, func(t *testing.T) {
		rec := &vh.Recorder{}
		s := vh.NewSched(sc.Seed)
		s.Free = sc.Opts.Free
		s.OnProbeSettled = func(site string) { rec.Log("QuiescentOp", "op", site) }
		for _, site := range []string{"srv.stop.lock", "srv.cancel.lock", "srv.push.lock"} {
			s.Pass[site] = true
		}
		r := &runner{t: t, sc: sc, rec: rec, sched: s, gen: 1, stats: stats,
			running: map[string]bool{}, hgate: map[string]chan hcmd{}, cbCancel: map[string]context.CancelFunc{}, batchOf: map[int64]string{}}
		point := func(site string, args ...any) {
			if site == "srv.batch.start" {
				if len(args) > 2 {
					r.rmu.Lock()
					r.batchOf[goid()] = r.batchTag(args[1], args[2])
					r.rmu.Unlock()
				}
				return
			}
			s.Point(site, args...)
		}
		event := func(name string, args ...any) {
			if name == "srv.assign" && len(args) > 4 { // the members of a batch are assigned consecutively, under the lock
				if req, ok := args[4].(*jrpc2.Request); ok {
					r.rmu.Lock()
					r.assigned = append(r.assigned, req)
					r.rmu.Unlock()
				}
			}
			if name == "srv.barrier.pass" { // a batch got through the notification barrier: pins the contract's silent Dispatch step
				rec.Log("BarrierPass")
			}
			switch name { // built-in handlers have no harness wrapper: observe them through the hook
			case "srv.hstart", "srv.hexit":
				if len(args) > 1 {
					if req, ok := args[1].(*jrpc2.Request); ok && strings.HasPrefix(req.Method(), "rpc.") {
						ev := map[string]string{"srv.hstart": "HStart", "srv.hexit": "HExit"}[name]
						rec.Log(ev, "tag", vh.TagOf(json.RawMessage(req.ParamString())), "out", "ok", "cx", false, "inb", true, "builtin", true)
					}
				}
			}
		}
		jrpc2.VerifInstall(point, event)
		defer jrpc2.VerifInstall(nil, nil)

		r.ch = vh.NewVChan("s1", rec, sc.Opts.RecvUnblocks)
		s.RootGid = goid()
		r.ch.InSendHook = func() { s.InOp("send", "s1") }
		r.ch.InCloseHook = func() { s.InOp("close", "s1") }
		conc := sc.Opts.Conc
		sopts := &jrpc2.ServerOptions{Concurrency: conc, AllowPush: sc.Opts.Push, DisableBuiltin: sc.Opts.NoBuiltin}
		sopts.Logger = func(text string) { // (a scheduling point, or the instant of a cancellation, where a scenario asks for one; nothing else)
			// the reader has handed a reply to its callback (its log line there follows the hand-over, under the lock): from
			// here on the reply is what Callback returns
			if _, id, ok := strings.Cut(text, "Received response for callback "); ok {
				rec.Log("CbTaken", "id", strings.Trim(id, `"`))
			}
			if lc := r.logCancel.Load(); lc != nil && strings.Contains(text, lc.text) && r.logCancel.CompareAndSwap(lc, nil) {
				lc.f()
			}
			s.InLog(text)
		}
		if sc.Opts.BaseCtx {
			r.baseCtx, r.baseCancel = context.WithCancel(context.Background())
			defer r.baseCancel()
			// every call hands out a context of its own (numbered), all of them ending with the one the scenario can end
			sopts.NewContext = func() context.Context { return context.WithValue(r.baseCtx, baseKey{}, r.nbase.Add(1)) }
		}
		r.srv = jrpc2.NewServer(assigner{r}, sopts)
		*sopts = jrpc2.ServerOptions{AllowPush: !sc.Opts.Push, DisableBuiltin: !sc.Opts.NoBuiltin, Concurrency: 1 + conc%3} // (options are read when the server is made)
		rec.Log("Start", "gen", 1, "ch", "s1")
		r.srv.Start(r.ch)
		r.startWaitStatus()
		s.Settle()

		for _, st := range sc.Steps {
			r.doStep(st)
		}

		// Tear-down: release every handler, run everything to completion, close the peer end.
		s.Unhold()
		rec.Log("Teardown")
		for round := 0; round < 50; round++ {
			r.doStep(Step{A: "releaseall"})
			r.doStep(Step{A: "drain"})
			r.rmu.Lock()
			busy := len(r.running) > 0
			r.rmu.Unlock()
			if !busy {
				break
			}
		}
		for c, cancel := range r.cbCancel {
			rec.Log("CtxEnd", "c", c)
			cancel()
		}
		r.doStep(Step{A: "drain"})
		r.ch.PeerClose()
		r.doStep(Step{A: "releaseall"})
		r.doStep(Step{A: "drain"})
		r.doStep(Step{A: "releaseall"})
		r.doStep(Step{A: "drain"})
		if !r.waitReturned() {
			rec.Log("Deadlock", "what", "WaitStatus did not return after peer close and full drain")
		}
		snap := r.srv.VerifSnapshot()
		rec.Log("Final", "reserved", len(snap.Reserved), "callbacks", len(snap.Callbacks), "qlen", snap.QueueLen,
			"running", snap.Running, "closes", r.ch.Closes())
		synctest.Wait()
		if n := leaked(); n > 0 {
			rec.Log("Leak", "n", n)
			if os.Getenv("VERIF_DEBUG") != "" {
				fmt.Fprintln(os.Stderr, vh.BubbleGoroutines())
			}
			stats["leak"] = n
		}
		stats["releases"] = s.Releases
		stats["racy"] = s.RacyPoints
		stats["diverged"] += s.Diverged
		emit(rec.Events(), stats)
	})
}

// leaked counts goroutines of the current bubble other than the caller.
func leaked() int {
	dump := vh.BubbleGoroutines()
	n := 0
	for _, blk := range strings.Split(dump, "\n\n") {
		first, _, _ := strings.Cut(blk, "\n")
		if strings.Contains(first, "synctest bubble") && !strings.Contains(first, "running") &&
			!strings.Contains(blk, "internal/synctest.Run(") && !strings.Contains(blk, "testingSynctestTest(") {
			n++
		}
	}
	return n
}

func goid() int64 {
	var buf [64]byte
	b := buf[:runtimeStack(buf[:])]
	s := strings.TrimPrefix(string(b), "goroutine ")
	i := strings.IndexByte(s, ' ')
	if i < 0 {
		return -1
	}
	v, _ := strconv.ParseInt(s[:i], 10, 64)
	return v
}

// LoadScenarios reads ndjson scenarios.
func LoadScenarios(path string) ([]*Scenario, error) {
	b, err := os.ReadFile(path)
	if err != nil {
		return nil, err
	}
	var out []*Scenario
	for _, line := range strings.Split(string(b), "\n") {
		if strings.TrimSpace(line) == "" {
			continue
		}
		sc := new(Scenario)
		if err := json.Unmarshal([]byte(line), sc); err != nil {
			return nil, fmt.Errorf("%v in %q", err, line)
		}
		out = append(out, sc)
	}
	return out, nil
}
