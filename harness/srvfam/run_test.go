package srvfam

import (
	"fmt"
	"os"
	"runtime"
	"strconv"
	"testing"

	"verif/harness/vh"
)

// TestRun executes the scenarios of $VERIF_SCENARIOS (ndjson) starting at index
// $VERIF_FROM and appends their traces to $VERIF_OUT.  Before each scenario its
// index is written to $VERIF_PROGRESS so that a supervising process can tell
// which scenario killed the worker.
func TestRun(t *testing.T) {
	path := os.Getenv("VERIF_SCENARIOS")
	if path == "" {
		t.Skip("no VERIF_SCENARIOS")
	}
	scs, err := LoadScenarios(path)
	if err != nil {
		t.Fatal(err)
	}
	from, _ := strconv.Atoi(os.Getenv("VERIF_FROM"))
	tw, err := vh.NewTraceWriter(os.Getenv("VERIF_OUT"))
	if err != nil {
		t.Fatal(err)
	}
	defer tw.Close()
	prog := os.Getenv("VERIF_PROGRESS")
	for i := from; i < len(scs); i++ {
		if prog != "" {
			os.WriteFile(prog, []byte(fmt.Sprintf("%d %s\n", i, scs[i].Name)), 0o644)
		}
		Run(t, scs[i], func(evs []vh.Event, stats map[string]int) {
			conc := scs[i].Opts.Conc
			if conc < 1 { // the documented default: "a value less than 1 uses runtime.NumCPU()"
				conc = runtime.NumCPU()
			}
			hdr := vh.Event{"idx": i, "conc": conc, "push": scs[i].Opts.Push, "builtin": !scs[i].Opts.NoBuiltin}
			for k, v := range stats {
				hdr["st_"+k] = v
			}
			if err := tw.WriteScenario(scs[i].Name, hdr, evs); err != nil {
				t.Fatal(err)
			}
			if stats["leak"] > 0 {
				// the bubble cannot be left with blocked goroutines; end this worker, the supervisor restarts after i
				tw.Close()
				os.WriteFile(prog, []byte(fmt.Sprintf("%d %s LEAKDONE\n", i, scs[i].Name)), 0o644)
				os.Exit(3)
			}
		})
	}
	if prog != "" {
		os.WriteFile(prog, []byte("done\n"), 0o644)
	}
}
