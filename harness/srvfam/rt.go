package srvfam

import "runtime"

func runtimeStack(b []byte) int { return runtime.Stack(b, false) }
