// Package getfam covers C19: (a) the TLC-evaluated table of spec/QueryTyping.tla
// replayed into jhttp.ParseQuery / ParseBasic and a real Getter, (c) behaviours
// of spec/HttpChan.tla replayed into a real jhttp.Channel with counted response
// bodies, (b) the same workloads over jhttp.Channel+Bridge and over a direct
// connection.
package getfam

import (
	"bytes"
	"context"
	"encoding/base64"
	"encoding/json"
	"errors"
	"fmt"
	"io"
	"net/http"
	"net/http/httptest"
	"net/url"
	"os"
	"reflect"
	"runtime"
	"strconv"
	"strings"
	"sync"
	"testing"
	"testing/synctest"
	"time"

	"github.com/creachadair/jrpc2"
	"github.com/creachadair/jrpc2/handler"
	"github.com/creachadair/jrpc2/jhttp"
	"github.com/creachadair/jrpc2/server"
)

type QCell struct {
	V []string `json:"v"`
	T []string `json:"t"`
}
type QTable struct {
	Cells  []QCell        `json:"cells"`
	Status map[string]int `json:"status"`
}

func tokText(t string) string {
	switch t {
	case "dq":
		return `"`
	case "sq":
		return `'`
	case "b64":
		return "QUJD"
	case "sp":
		return " "
	case "bs":
		return `\`
	}
	return t
}

type violation struct {
	Property string `json:"property"`
	Input    string `json:"input"`
	Why      string `json:"why"`
}
type result struct {
	Evaluations int            `json:"evaluations"`
	Cells       int            `json:"cells"`
	Classes     map[string]int `json:"classes"`
	Violations  []violation    `json:"violations"`
	Samples     []string       `json:"samples"`
}

func (r *result) add(input, why string) {
	if len(r.Violations) < 30 {
		r.Violations = append(r.Violations, violation{"C19", input, why})
	}
}

func has(set []string, x string) bool {
	for _, s := range set {
		if s == x {
			return true
		}
	}
	return false
}

func mux() handler.Map {
	return handler.Map{
		"echo": func(ctx context.Context, req *jrpc2.Request) (any, error) {
			if !req.HasParams() {
				return map[string]any{}, nil
			}
			return json.RawMessage(req.ParamString()), nil
		},
		"a/b": func(ctx context.Context, req *jrpc2.Request) (any, error) { return "a/b", nil },
		"fail": func(ctx context.Context, req *jrpc2.Request) (any, error) {
			var p struct {
				Code int `json:"code"`
			}
			req.UnmarshalParams(&p)
			if p.Code == 0 {
				return nil, errors.New("plain failure")
			}
			return nil, jrpc2.Errorf(jrpc2.Code(p.Code), "failed with %d", p.Code).WithData(map[string]int{"c": p.Code})
		},
		"unmarshalable": func(ctx context.Context, req *jrpc2.Request) (any, error) { return make(chan int), nil },
	}
}

func checkBodyJSON(rec *httptest.ResponseRecorder, wantErrObj bool) string {
	body := rec.Body.Bytes()
	if !json.Valid(body) {
		return fmt.Sprintf("status %d with a body that is not valid JSON: %q", rec.Code, body)
	}
	if wantErrObj {
		var e struct {
			Code    *int    `json:"code"`
			Message *string `json:"message"`
		}
		if json.Unmarshal(body, &e) != nil || e.Code == nil {
			return fmt.Sprintf("status %d: body is not a JSON-RPC error object: %s", rec.Code, body)
		}
	}
	return ""
}

func TestQuery(t *testing.T) {
	tp := os.Getenv("VERIF_TABLE")
	if tp == "" || os.Getenv("VERIF_PART") != "query" {
		t.Skip()
	}
	var tab QTable
	b, err := os.ReadFile(tp)
	if err != nil {
		t.Fatal(err)
	}
	if err := json.Unmarshal(b, &tab); err != nil {
		t.Fatal(err)
	}
	shard, _ := strconv.Atoi(os.Getenv("VERIF_SHARD"))
	nshard, _ := strconv.Atoi(os.Getenv("VERIF_NSHARD"))
	if nshard == 0 {
		nshard = 1
	}
	res := &result{Classes: map[string]int{}}
	g := jhttp.NewGetter(mux(), &jhttp.GetterOptions{ParseRequest: jhttp.ParseQuery})
	defer g.Close()
	gb := jhttp.NewGetter(mux(), nil)
	defer gb.Close()

	for i, c := range tab.Cells {
		if i%nshard != shard {
			continue
		}
		res.Cells++
		var sb strings.Builder
		for _, tk := range c.V {
			sb.WriteString(tokText(tk))
		}
		s := sb.String()
		u := "http://h/echo?x=" + url.QueryEscape(s)
		var method string
		var params any
		var perr error
		var pan any
		func() {
			defer func() { pan = recover() }()
			method, params, perr = jhttp.ParseQuery(httptest.NewRequest("GET", u, nil))
		}()
		res.Evaluations++
		if pan != nil {
			res.add(s, fmt.Sprintf("ParseQuery panicked: %v", pan))
			continue
		}
		class := ""
		if perr != nil {
			class = "err"
		} else {
			if method != "echo" {
				res.add(s, fmt.Sprintf("method %q, want %q", method, "echo"))
			}
			m, ok := params.(map[string]any)
			if !ok {
				res.add(s, fmt.Sprintf("params %T, want map[string]any", params))
				continue
			}
			if _, err := json.Marshal(params); err != nil {
				res.add(s, "parameters are not JSON-marshalable: "+err.Error())
				continue
			}
			switch v := m["x"].(type) {
			case string:
				var dec string
				if len(s) >= 2 && s[0] == '"' && s[len(s)-1] == '"' && json.Unmarshal([]byte(s), &dec) == nil && dec == v {
					class = "jsonstr"
				} else if v == s {
					class = "str"
				} else {
					res.add(s, fmt.Sprintf("typed as the string %q, which is neither the literal value nor its JSON decoding", v))
					continue
				}
			case int64:
				class = "num"
				if want, err := strconv.ParseFloat(s, 64); err != nil || float64(v) != want {
					res.add(s, fmt.Sprintf("typed as the number %d", v))
				}
			case float64:
				class = "num"
				if want, err := strconv.ParseFloat(s, 64); err != nil || v != want {
					res.add(s, fmt.Sprintf("typed as the number %v", v))
				}
			case bool:
				class = strconv.FormatBool(v)
			case nil:
				class = "null"
			case []byte:
				class = "bytes"
				want, err := base64.StdEncoding.DecodeString(strings.Trim(s, "'"))
				if err != nil {
					want, err = base64.RawStdEncoding.DecodeString(strings.TrimRight(strings.Trim(s, "'"), "="))
				}
				if err != nil || !bytes.Equal(v, want) {
					res.add(s, fmt.Sprintf("typed as bytes %q, base64 says %q (%v)", v, want, err))
				}
			default:
				res.add(s, fmt.Sprintf("typed as %T", v))
				continue
			}
		}
		res.Classes[class]++
		if !has(c.T, class) {
			res.add(s, fmt.Sprintf("typed as %s, the documented rules allow %v", class, c.T))
			continue
		}
		// through a real Getter: 200 with the JSON result, or 400 with a JSON error object
		rec := httptest.NewRecorder()
		func() {
			defer func() { pan = recover() }()
			g.ServeHTTP(rec, httptest.NewRequest("GET", u, nil))
		}()
		res.Evaluations++
		switch {
		case pan != nil:
			res.add(s, fmt.Sprintf("Getter panicked: %v", pan))
		case class == "err" && rec.Code != tab.Status["parseerror"]:
			res.add(s, fmt.Sprintf("Getter status %d for an unparsable URL, want %d", rec.Code, tab.Status["parseerror"]))
		case class != "err" && rec.Code != tab.Status["ok"]:
			res.add(s, fmt.Sprintf("Getter status %d (%s), want %d", rec.Code, rec.Body.String(), tab.Status["ok"]))
		default:
			if why := checkBodyJSON(rec, class == "err"); why != "" {
				res.add(s, why)
			}
		}
		// ParseBasic: always the literal string
		if i%7 == 0 {
			var bm string
			var bp any
			var berr error
			func() {
				defer func() { pan = recover() }()
				bm, bp, berr = jhttp.ParseBasic(httptest.NewRequest("GET", u, nil))
			}()
			res.Evaluations++
			if pan != nil || berr != nil || bm != "echo" {
				res.add(s, fmt.Sprintf("ParseBasic: panic=%v err=%v method=%q", pan, berr, bm))
			} else if m, ok := bp.(map[string]string); !ok || m["x"] != s {
				res.add(s, fmt.Sprintf("ParseBasic params %#v, want the literal string", bp))
			}
		}
		if len(res.Samples) < 5 && i%3001 == 5 {
			res.Samples = append(res.Samples, s)
		}
	}
	if shard == 0 {
		// paths: the method is the path trimmed of slashes, and never empty
		for _, p := range []struct{ path, want string }{{"/", ""}, {"//", ""}, {"", ""}, {"/echo", "echo"}, {"/a/b/", "a/b"}, {"//a/b//", "a/b"}, {"/a%2Fb", "a/b"}, {"/nope", "nope"}, {"/é/", "é"}} {
			for _, parse := range []struct {
				name string
				f    func(*http.Request) (string, any, error)
				g    jhttp.Getter
			}{{"ParseQuery", jhttp.ParseQuery, g}, {"ParseBasic", jhttp.ParseBasic, gb}} {
				req := httptest.NewRequest("GET", "http://h/", nil)
				u, err := url.Parse("http://h" + p.path + "?k=1")
				if err != nil {
					continue
				}
				req.URL = u
				m, _, err := parse.f(req)
				res.Evaluations++
				if p.want == "" && err == nil {
					res.add(parse.name+" "+p.path, fmt.Sprintf("empty method accepted: %q", m))
				} else if p.want != "" && (err != nil || m != p.want) {
					res.add(parse.name+" "+p.path, fmt.Sprintf("method %q err %v, want %q", m, err, p.want))
				}
				rec := httptest.NewRecorder()
				parse.g.ServeHTTP(rec, req)
				want := tab.Status["ok"]
				switch {
				case p.want == "":
					want = tab.Status["parseerror"]
				case p.want == "nope" || p.want == "é":
					want = tab.Status["notfound"]
				}
				if rec.Code != want {
					res.add(parse.name+" "+p.path, fmt.Sprintf("Getter status %d, want %d", rec.Code, want))
				} else if why := checkBodyJSON(rec, want != 200); why != "" {
					res.add(parse.name+" "+p.path, why)
				}
			}
		}
		// numbers at the edges of what an integer holds, and far beyond: a number all the same, the one the digits say
		// (the nearest float64 where no int64 holds it)
		for _, v := range []string{"9223372036854775807", "9223372036854775808", "-9223372036854775808", "-9223372036854775809", "18446744073709551616",
			"-31415926535897932384626433", "99999999999999999999999", "1" + strings.Repeat("0", 40), "-1" + strings.Repeat("0", 25), "00000000000000000000007", "+18446744073709551616"} {
			_, ps, err := jhttp.ParseQuery(httptest.NewRequest("GET", "http://h/echo?x="+url.QueryEscape(v), nil))
			res.Evaluations++
			if err != nil {
				res.add(v, "ParseQuery failed on a string of digits: "+err.Error())
				continue
			}
			want, _ := strconv.ParseFloat(v, 64)
			switch x := ps.(map[string]any)["x"].(type) {
			case int64:
				if n, perr := strconv.ParseInt(v, 10, 64); perr != nil || n != x {
					res.add(v, fmt.Sprintf("typed as the integer %d", x))
				}
			case float64:
				if x != want {
					res.add(v, fmt.Sprintf("typed as the number %v, the digits say %v", x, want))
				}
			default:
				res.add(v, fmt.Sprintf("typed as %T (%v), want a number", x, x))
			}
		}
		// several parameters in one query: each is typed by itself - what one holds does not depend on its neighbours
		// (two byte strings, a byte string next to numbers, the same value twice)
		{
			vals := []string{`'aGVsbG8'`, `'d29ybGQ'`, `'IQ'`, `5`, `"s t"`, `true`, `plain text`, `'` + strings.Repeat("QUJD", 20) + `'`, `-2.5`, `null`}
			single := func(v string) (any, error) {
				_, ps, err := jhttp.ParseQuery(httptest.NewRequest("GET", "http://h/echo?x="+url.QueryEscape(v), nil))
				if err != nil {
					return nil, err
				}
				x := ps.(map[string]any)["x"]
				if b, ok := x.([]byte); ok {
					x = string(append([]byte(nil), b...))
				}
				return x, nil
			}
			for a := range vals {
				for b := range vals {
					for c := 0; c < len(vals); c += 3 {
						pick := []string{vals[a], vals[b], vals[(a+b+c)%len(vals)], vals[c]}
						q := url.Values{}
						for k, v := range pick {
							q.Set(fmt.Sprintf("p%d", k), v)
						}
						_, ps, err := jhttp.ParseQuery(httptest.NewRequest("GET", "http://h/echo?"+q.Encode(), nil))
						res.Evaluations++
						if err != nil {
							res.add("?"+q.Encode(), "ParseQuery failed on values that parse one by one: "+err.Error())
							continue
						}
						m, _ := ps.(map[string]any)
						for k, v := range pick {
							want, _ := single(v)
							got := m[fmt.Sprintf("p%d", k)]
							if bs, ok := got.([]byte); ok {
								got = string(bs)
							}
							if !reflect.DeepEqual(got, want) {
								res.add("?"+q.Encode(), fmt.Sprintf("parameter p%d = %s is %#v here and %#v when it stands alone", k, v, got, want))
								break
							}
						}
					}
				}
			}
		}
		// status mapping for every kind of failure
		for _, c := range []struct {
			q    string
			kind string
		}{{"/fail?code=0", "handlererror"}, {"/fail?code=7", "handlererror"}, {"/fail?code=-32602", "invalidparams"}, {"/fail?code=-32603", "internal"},
			{"/fail?code=-32601", "notfound"}, {"/fail?code=-32700", "handlererror"}, {"/unmarshalable", "internal"}, {"/rpc.nope", "notfound"}, {"/echo?x=%22", "parseerror"},
			{"/echo?x=%27", "parseerror"}, {"/echo?%zz", "parseerror"}, {"/echo?x=1;y=2", "parseerror"}} {
			rec := httptest.NewRecorder()
			var pan any
			func() {
				defer func() { pan = recover() }()
				g.ServeHTTP(rec, httptest.NewRequest("GET", "http://h"+c.q, nil))
			}()
			res.Evaluations++
			want := tab.Status[c.kind]
			if pan != nil {
				res.add(c.q, fmt.Sprintf("Getter panicked: %v", pan))
			} else if c.q == "/echo?x=1;y=2" || c.q == "/echo?%zz" {
				// how net/url treats these is not ours to judge; only totality and a JSON body
				if why := checkBodyJSON(rec, rec.Code != 200); why != "" {
					res.add(c.q, why)
				}
			} else if rec.Code != want {
				res.add(c.q, fmt.Sprintf("status %d (%s), want %d", rec.Code, rec.Body.String(), want))
			} else if why := checkBodyJSON(rec, true); why != "" {
				res.add(c.q, why)
			}
		}
	}
	out, _ := json.Marshal(res)
	os.WriteFile(os.Getenv("VERIF_OUT"), out, 0o644)
}

// ---- (c) HTTP channel resources ---------------------------------------------------------------------------------

type HStep struct {
	A    string `json:"a"` // send | doret | recv | close
	Kind string `json:"kind,omitempty"`
	I    int    `json:"i,omitempty"`
	// NoWait: the next step (a close) is taken at once, before the goroutine this Send started has run at all.
	NoWait bool `json:"nowait,omitempty"`
	// State is the model's state after this action and the steps that follow it by themselves;
	// nil when the model had not yet taken every such step (no comparison then).
	State *struct {
		Nopen, Nclosed, Nrecv, Neof, Refused, Ndeliver int
		Closepc                                        string
	} `json:"state"`
}
type HScenario struct {
	Name  string  `json:"name"`
	Steps []HStep `json:"steps"`
}

type bodySpy struct {
	io.ReadCloser
	c *counters
}
type counters struct {
	mu                    sync.Mutex
	opened, closed, twice int
}

func (b *bodySpy) Close() error {
	b.c.mu.Lock()
	b.c.closed++
	b.c.mu.Unlock()
	return b.ReadCloser.Close()
}

type gatedClient struct {
	c     *counters
	mu    sync.Mutex
	gates []chan struct{}
	kinds []string
	ndo   int
	nret  int // round trips that have returned
}

func (g *gatedClient) Do(req *http.Request) (*http.Response, error) {
	g.mu.Lock()
	i := g.ndo
	g.ndo++
	for len(g.gates) <= i {
		g.gates = append(g.gates, make(chan struct{}))
	}
	gate, kind := g.gates[i], g.kinds[i]
	g.mu.Unlock()
	<-gate
	defer func() { g.mu.Lock(); g.nret++; g.mu.Unlock() }()
	switch kind {
	case "fail":
		return nil, errors.New("injected HTTP failure")
	case "bad":
		g.c.mu.Lock()
		g.c.opened++
		g.c.mu.Unlock()
		return &http.Response{StatusCode: 500, Status: "500 Internal Server Error", Body: &bodySpy{io.NopCloser(strings.NewReader("bridge failure\n")), g.c}}, nil
	case "note":
		g.c.mu.Lock()
		g.c.opened++
		g.c.mu.Unlock()
		return &http.Response{StatusCode: http.StatusNoContent, Status: "204 No Content", Body: &bodySpy{io.NopCloser(strings.NewReader("")), g.c}}, nil
	}
	g.c.mu.Lock()
	g.c.opened++
	g.c.mu.Unlock()
	return &http.Response{StatusCode: 200, Status: "200 OK", Body: &bodySpy{io.NopCloser(strings.NewReader(`{"jsonrpc":"2.0","id":1,"result":"r"}`)), g.c}}, nil
}

func bubbleGoroutines() int {
	buf := make([]byte, 1<<20)
	n := 0
	for _, blk := range strings.Split(string(buf[:runtime.Stack(buf, true)]), "\n\n") {
		first, _, _ := strings.Cut(blk, "\n")
		if strings.Contains(first, "synctest bubble") && !strings.Contains(first, "running") &&
			!strings.Contains(blk, "internal/synctest.Run(") && !strings.Contains(blk, "testingSynctestTest(") {
			n++
		}
	}
	return n
}

func TestHTTPChan(t *testing.T) {
	if os.Getenv("VERIF_PART") != "httpchan" {
		t.Skip()
	}
	b, err := os.ReadFile(os.Getenv("VERIF_SCENARIOS"))
	if err != nil {
		t.Fatal(err)
	}
	shard, _ := strconv.Atoi(os.Getenv("VERIF_SHARD"))
	nshard, _ := strconv.Atoi(os.Getenv("VERIF_NSHARD"))
	if nshard == 0 {
		nshard = 1
	}
	res := &result{Classes: map[string]int{}}
	for li, line := range strings.Split(strings.TrimSpace(string(b)), "\n") {
		if li%nshard != shard || line == "" {
			continue
		}
		var sc HScenario
		if err := json.Unmarshal([]byte(line), &sc); err != nil {
			t.Fatal(err)
		}
		res.Cells++
		synctest.Test(t, func(t *testing.T) {
			cnt := &counters{}
			gc := &gatedClient{c: cnt}
			ch := jhttp.NewChannel("http://x/", &jhttp.ChannelOptions{Client: gc})
			var mu sync.Mutex
			nrecv, neof, refused := 0, 0, 0
			closeDone, closeInvoked := false, false
			bad := func(why string) { res.add(sc.Name, why) }
			for si, st := range sc.Steps {
				switch st.A {
				case "send":
					gc.mu.Lock()
					gc.kinds = append(gc.kinds, st.Kind)
					gc.mu.Unlock()
					if err := ch.Send([]byte(`{"jsonrpc":"2.0","id":1,"method":"m"}`)); err != nil {
						refused++
						gc.mu.Lock()
						gc.kinds = gc.kinds[:len(gc.kinds)-1]
						gc.mu.Unlock()
					}
				case "doret":
					gc.mu.Lock()
					for len(gc.gates) < st.I {
						gc.gates = append(gc.gates, make(chan struct{}))
					}
					close(gc.gates[st.I-1])
					gc.mu.Unlock()
				case "recv":
					go func() {
						_, err := ch.Recv()
						mu.Lock()
						if err == io.EOF {
							neof++
						} else {
							nrecv++
						}
						mu.Unlock()
					}()
				case "close":
					closeInvoked = true
					go func() { ch.Close(); mu.Lock(); closeDone = true; mu.Unlock() }()
				}
				if st.A == "send" && st.NoWait {
					continue
				}
				synctest.Wait()
				res.Evaluations++
				// Close waits for every request a Send has accepted - also one whose goroutine has not run a single step yet
				mu.Lock()
				cdn := closeDone
				mu.Unlock()
				gc.mu.Lock()
				nacc, nret := len(gc.kinds), gc.nret
				gc.mu.Unlock()
				if cdn && nret != nacc {
					bad(fmt.Sprintf("after step %d (%s): Close has returned while %d of %d accepted requests are still in flight", si+1, st.A, nacc-nret, nacc))
					break
				}
				// compare the projected state with the model's state after this action
				if st.State == nil {
					continue
				}
				cnt.mu.Lock()
				mu.Lock()
				cp := "none"
				if closeDone {
					cp = "ret"
				} else if st.State.Closepc == "drain" {
					cp = "drain"
				}
				// which of several waiting responses a Recv takes is not determined: the number of closed
				// bodies is compared only when none is waiting
				closedOK := st.State.Ndeliver > 0 || cnt.closed == st.State.Nclosed
				// (which of a pending Recv and Close's drain loop gets a waiting response is not determined either:
				// the split between received and drained responses is not compared)
				if cnt.opened != st.State.Nopen || !closedOK || refused != st.State.Refused || cp != st.State.Closepc || (neof > 0 && cp != "ret") || cnt.closed > cnt.opened {
					bad(fmt.Sprintf("after step %d (%s): bodies opened/closed %d/%d, recv %d, eof %d, refused %d, close %s; the model says %+v",
						si+1, st.A, cnt.opened, cnt.closed, nrecv, neof, refused, cp, *st.State))
					mu.Unlock()
					cnt.mu.Unlock()
					break
				}
				mu.Unlock()
				cnt.mu.Unlock()
			}
			// run to completion: release every round trip, close, and check the resources
			gc.mu.Lock()
			for i := range gc.kinds {
				for len(gc.gates) <= i {
					gc.gates = append(gc.gates, make(chan struct{}))
				}
				select {
				case <-gc.gates[i]:
				default:
					close(gc.gates[i])
				}
			}
			gc.mu.Unlock()
			synctest.Wait()
			if !closeInvoked { // the library closes a channel exactly once (C10); so does the harness
				go func() { ch.Close(); mu.Lock(); closeDone = true; mu.Unlock() }()
				synctest.Wait()
			}
			mu.Lock()
			cd := closeDone
			mu.Unlock()
			if !cd {
				bad("Close does not return although every round trip has finished")
				os.WriteFile(os.Getenv("VERIF_OUT"), mustJSON(res), 0o644)
				os.Exit(0) // goroutines are left blocked: the bubble cannot be left
			}
			synctest.Wait()
			if cnt.opened != cnt.closed {
				bad(fmt.Sprintf("%d response bodies opened, %d closed", cnt.opened, cnt.closed))
			}
			if n := bubbleGoroutines(); n != 0 {
				bad(fmt.Sprintf("%d goroutines left behind after Close", n))
				os.WriteFile(os.Getenv("VERIF_OUT"), mustJSON(res), 0o644)
				os.Exit(0)
			}
			if _, err := ch.Recv(); err != io.EOF {
				bad(fmt.Sprintf("Recv after Close: %v, want io.EOF", err))
			}
			before := gc.ndo
			if err := ch.Send([]byte(`{}`)); err == nil || gc.ndo != before {
				bad("Send after Close must fail without issuing a request")
			}
		})
	}
	os.WriteFile(os.Getenv("VERIF_OUT"), mustJSON(res), 0o644)
}

func mustJSON(v any) []byte { b, _ := json.Marshal(v); return b }

// ---- (b) equivalence of transports ---------------------------------------------------------------------------------

type bridgeClient struct{ h http.Handler }

func (b bridgeClient) Do(req *http.Request) (*http.Response, error) {
	rec := httptest.NewRecorder()
	b.h.ServeHTTP(rec, req)
	return rec.Result(), nil
}

func TestEquiv(t *testing.T) {
	if os.Getenv("VERIF_PART") != "equiv" {
		t.Skip()
	}
	res := &result{Classes: map[string]int{}}
	type obs struct {
		Kind string
		Err  string
		Res  []string
	}
	run := func(cli *jrpc2.Client) []obs {
		var out []obs
		// every operation has a deadline: an operation that never completes over one transport is a difference
		// (context deadline exceeded vs the direct result), not a hung check
		ctx, cancel := context.WithTimeout(context.Background(), 20*time.Second)
		defer cancel()
		one := func(rsp *jrpc2.Response, err error) obs {
			if err != nil {
				return obs{Kind: "call", Err: fmt.Sprintf("%d|%v", jrpc2.ErrorCode(err), err)}
			}
			return obs{Kind: "call", Res: []string{rsp.ResultString()}}
		}
		out = append(out, one(cli.Call(ctx, "echo", map[string]any{"a": []int{1, 2}, "s": "x\ny <&>"})))
		out = append(out, one(cli.Call(ctx, "echo", nil)))
		out = append(out, one(cli.Call(ctx, "nope", nil)))
		out = append(out, one(cli.Call(ctx, "rpc.nope", nil)))
		for _, code := range []int{0, 7, -32602, -32097, -32096} {
			out = append(out, one(cli.Call(ctx, "fail", map[string]int{"code": code})))
		}
		out = append(out, one(cli.Call(ctx, "unmarshalable", nil)))
		out = append(out, obs{Kind: "notify", Err: fmt.Sprint(cli.Notify(ctx, "echo", []int{1}))})
		out = append(out, obs{Kind: "notify", Err: fmt.Sprint(cli.Notify(ctx, "nope", nil))})
		batches := [][]jrpc2.Spec{
			{{Method: "echo", Params: []int{1}}, {Method: "echo", Params: []int{2}, Notify: true}, {Method: "nope"}, {Method: "fail", Params: map[string]int{"code": 9}}},
			{{Method: "echo", Notify: true}, {Method: "nope", Notify: true}},
			{{Method: "a/b"}},
		}
		// every composition of a batch from a succeeding call, a failing call and a notification, up to length 3
		kinds := []jrpc2.Spec{{Method: "echo", Params: []int{7}}, {Method: "fail", Params: map[string]int{"code": 11}}, {Method: "echo", Params: []int{8}, Notify: true}}
		var comps func(prefix []jrpc2.Spec, n int)
		comps = func(prefix []jrpc2.Spec, n int) {
			if len(prefix) > 0 {
				batches = append(batches, append([]jrpc2.Spec(nil), prefix...))
			}
			if n == 0 {
				return
			}
			for _, k := range kinds {
				comps(append(prefix, k), n-1)
			}
		}
		comps(nil, 3)
		for _, specs := range batches {
			octx, ocancel := context.WithTimeout(ctx, 3*time.Second)
			rsps, err := cli.Batch(octx, specs)
			ocancel()
			o := obs{Kind: "batch", Err: fmt.Sprint(err)}
			for _, r := range rsps {
				if e := r.Error(); e != nil {
					o.Res = append(o.Res, fmt.Sprintf("E%d|%s|%s", e.Code, e.Message, e.Data))
				} else {
					o.Res = append(o.Res, r.ResultString())
				}
			}
			out = append(out, o)
		}
		var v any
		out = append(out, obs{Kind: "callresult", Err: fmt.Sprint(cli.CallResult(ctx, "echo", map[string]int{"k": 3}, &v)), Res: []string{fmt.Sprint(v)}})
		return out
	}
	direct := server.NewLocal(mux(), nil)
	want := run(direct.Client)
	direct.Close()

	bridge := jhttp.NewBridge(mux(), nil)
	cnt := &counters{}
	hc := jhttp.NewChannel("http://bridge/", &jhttp.ChannelOptions{Client: countingClient{bridgeClient{bridge}, cnt}})
	cli := jrpc2.NewClient(hc, nil)
	got := run(cli)
	cli.Close()
	bridge.Close()
	res.Evaluations = len(want)
	res.Cells = len(want)
	if !reflect.DeepEqual(got, want) {
		for i := range want {
			if i >= len(got) || !reflect.DeepEqual(got[i], want[i]) {
				res.add(fmt.Sprintf("workload step %d", i), fmt.Sprintf("over jhttp.Channel+Bridge: %+v; over a direct connection: %+v", got[min(i, len(got)-1)], want[i]))
				break
			}
		}
	}
	if cnt.opened != cnt.closed {
		res.add("equivalence workload", fmt.Sprintf("%d response bodies opened, %d closed", cnt.opened, cnt.closed))
	}
	res.Samples = append(res.Samples, "Call/Notify/Batch/CallResult workload over jhttp.Channel+Bridge vs server.NewLocal")
	os.WriteFile(os.Getenv("VERIF_OUT"), mustJSON(res), 0o644)
}

type countingClient struct {
	inner jhttp.HTTPClient
	c     *counters
}

func (c countingClient) Do(req *http.Request) (*http.Response, error) {
	rsp, err := c.inner.Do(req)
	if err == nil {
		c.c.mu.Lock()
		c.c.opened++
		c.c.mu.Unlock()
		rsp.Body = &bodySpy{rsp.Body, c.c}
	}
	return rsp, err
}
