module verif/harness

go 1.26

require (
	github.com/creachadair/jrpc2 v0.0.0
	pgregory.net/rapid v1.3.0
)

replace github.com/creachadair/jrpc2 => /repo
