// Package dispfam replays the TLC-evaluated table of spec/Dispatch.tla (C17)
// into a real Server: the mux shapes are built from the table's own description,
// every name is called and notified with and without DisableBuiltin, and the
// handler that ran (or the error) is compared with the reference target.
package dispfam

import (
	"context"
	"encoding/json"
	"fmt"
	"os"
	"sort"
	"strconv"
	"strings"
	"sync"
	"testing"
	"testing/synctest"
	"time"
	"unicode/utf16"

	"github.com/creachadair/jrpc2"
	"github.com/creachadair/jrpc2/handler"
	"verif/harness/vh"
)

type Mux struct {
	T    string     `json:"t"`
	Keys [][]string `json:"keys"`
	Sub  []struct {
		Key []string `json:"key"`
		M   *Mux     `json:"m"`
	} `json:"sub"`
}
type Cell struct {
	Mux     int        `json:"mux"`
	Builtin bool       `json:"builtin"`
	Name    []string   `json:"name"`
	K       string     `json:"k"`
	Path    [][]string `json:"path"`
}
type Table struct {
	Cells []Cell       `json:"cells"`
	Names [][][]string `json:"names"`
	Muxes []Mux        `json:"muxes"`
}

func seg(s string) string {
	if s == "e9" { // the non-ASCII segment: a Latin-1 letter, a slash and a character outside the BMP
		return "é/😀"
	}
	return s
}

// escaped spells a name as a JSON string with every character escaped (\uXXXX, surrogate pairs, \/): the same name
func escaped(name string) string {
	var b strings.Builder
	b.WriteByte('"')
	for _, r := range name {
		switch {
		case r == '/':
			b.WriteString(`\/`)
		case r > 0xffff:
			r1, r2 := utf16.EncodeRune(r)
			fmt.Fprintf(&b, `\u%04x\u%04x`, r1, r2)
		default:
			fmt.Fprintf(&b, `\u%04x`, r)
		}
	}
	b.WriteByte('"')
	return b.String()
}

func join(n []string) string {
	var p []string
	for _, s := range n {
		p = append(p, seg(s))
	}
	return strings.Join(p, ".")
}

type seen struct {
	path      string
	method    string
	id        string
	params    string
	inbOK     bool
	srvOK     bool
	assignInb string // method of InboundRequest seen by the assigner
}

type rig struct {
	mu     sync.Mutex
	calls  []seen
	srv    *jrpc2.Server
	asg    []string
	asgReq []string // per lookup: method | id | params of the inbound request the assigner saw
	extra  []string // names the assigner gains while the server runs
}

// spy wraps an assigner to record what InboundRequest(ctx) shows during assignment.
type spy struct {
	r     *rig
	inner jrpc2.Assigner
}

func (s spy) Assign(ctx context.Context, method string) jrpc2.Handler {
	m := "<nil>"
	if req := jrpc2.InboundRequest(ctx); req != nil {
		m = req.Method()
	}
	s.r.asg = append(s.r.asg, method+"|"+m)
	if req := jrpc2.InboundRequest(ctx); req != nil {
		s.r.asgReq = append(s.r.asgReq, method+"|"+req.ID()+"|"+req.ParamString())
	} else {
		s.r.asgReq = append(s.r.asgReq, method+"|<no inbound request>")
	}
	return s.inner.Assign(ctx, method)
}
func (s spy) Names() []string {
	n := s.inner.(jrpc2.Namer).Names()
	s.r.mu.Lock()
	defer s.r.mu.Unlock()
	if len(s.r.extra) == 0 {
		return n
	}
	n = append(append([]string(nil), n...), s.r.extra...)
	sort.Strings(n)
	return n
}

func (r *rig) build(m *Mux, path string) jrpc2.Assigner {
	if m.T == "map" {
		hm := handler.Map{}
		for _, k := range m.Keys {
			name := join(k)
			p := path + "/" + name
			hm[name] = func(ctx context.Context, req *jrpc2.Request) (any, error) {
				inb := jrpc2.InboundRequest(ctx)
				r.mu.Lock() // the members of a batch run concurrently
				r.calls = append(r.calls, seen{path: p, method: req.Method(), id: req.ID(), params: req.ParamString(),
					inbOK: inb == req, srvOK: jrpc2.ServerFromContext(ctx) == r.srv})
				r.mu.Unlock()
				return p, nil
			}
		}
		return hm
	}
	sm := handler.ServiceMap{}
	for _, e := range m.Sub {
		sm[join(e.Key)] = r.build(e.M, path+"/"+join(e.Key))
	}
	return sm
}

type violation struct {
	Property string `json:"property"`
	Mux      int    `json:"mux"`
	Builtin  bool   `json:"builtin"`
	Name     string `json:"name"`
	Why      string `json:"why"`
}
type result struct {
	Evaluations int            `json:"evaluations"`
	Cells       int            `json:"cells"`
	Classes     map[string]int `json:"classes"`
	Violations  []violation    `json:"violations"`
	Samples     []string       `json:"samples"`
}

func TestDispatch(t *testing.T) {
	tp := os.Getenv("VERIF_TABLE")
	if tp == "" {
		t.Skip("no VERIF_TABLE")
	}
	var tab Table
	b, err := os.ReadFile(tp)
	if err != nil {
		t.Fatal(err)
	}
	if err := json.Unmarshal(b, &tab); err != nil {
		t.Fatal(err)
	}
	shard, _ := strconv.Atoi(os.Getenv("VERIF_SHARD"))
	nshard, _ := strconv.Atoi(os.Getenv("VERIF_NSHARD"))
	if nshard == 0 {
		nshard = 1
	}
	res := &result{Classes: map[string]int{}}
	add := func(c Cell, why string) {
		if len(res.Violations) < 20 {
			res.Violations = append(res.Violations, violation{"C17", c.Mux, c.Builtin, join(c.Name), why})
		}
	}
	synctest.Test(t, func(t *testing.T) {
		// a context taken from inside a handler of some other server (what a forwarding service hands to the server it sets
		// up for the next hop through NewContext): it carries that server's request and server, which are not the ones the
		// handlers of this server are to see
		var outerCtx context.Context
		{
			och := vh.NewVChan("outer", &vh.Recorder{}, false)
			outer := jrpc2.NewServer(handler.Map{"grab": func(ctx context.Context, _ *jrpc2.Request) (any, error) {
				outerCtx = context.WithoutCancel(ctx)
				return nil, nil
			}}, nil).Start(och)
			och.Push([]byte(`{"jsonrpc":"2.0","id":"outer","method":"grab"}`), nil)
			synctest.Wait()
			och.PeerClose()
			outer.Wait()
			if outerCtx == nil || jrpc2.ServerFromContext(outerCtx) != outer {
				t.Fatal("harness: no handler context of the outer server")
			}
		}
		for mi := range tab.Muxes {
			for _, builtin := range []bool{true, false} {
				r := &rig{}
				mux := r.build(&tab.Muxes[mi], "")
				rec := &vh.Recorder{}
				ch := vh.NewVChan("d", rec, false)
				// (half of the servers are told when they started: that is then what rpc.serverInfo reports, in every run of the server)
				var startTime time.Time
				if mi%2 == 0 {
					startTime = time.Date(2020, 2, 29, 12, 30, 0, 0, time.UTC)
				}
				opts := &jrpc2.ServerOptions{DisableBuiltin: !builtin, Concurrency: 2, StartTime: startTime}
				if mi%2 == 1 {
					opts.NewContext = func() context.Context { return outerCtx }
				}
				r.srv = jrpc2.NewServer(spy{r, mux}, opts)
				// the options are read when the server is made: the caller may reuse the value for another server afterwards
				// (every field changed here; this server is what it was told to be)
				*opts = jrpc2.ServerOptions{DisableBuiltin: builtin, Concurrency: 1, StartTime: time.Date(1999, 1, 1, 0, 0, 0, 0, time.UTC), AllowPush: true,
					NewContext: func() context.Context { c, cancel := context.WithCancel(context.Background()); cancel(); return c }}
				r.srv.Start(ch)
				nout := 0
				feed := func(txt string) ([]seen, [][]byte, []string) {
					c0, a0 := len(r.calls), len(r.asg)
					ch.Push([]byte(txt), nil)
					synctest.Wait()
					ch.Lock()
					outs := append([][]byte(nil), ch.Out[nout:]...)
					nout = len(ch.Out)
					ch.Unlock()
					return append([]seen(nil), r.calls[c0:]...), outs, append([]string(nil), r.asg[a0:]...)
				}
				// Names(): every method, sorted
				var want []string
				for _, n := range tab.Names[mi] {
					want = append(want, join(n))
				}
				sort.Strings(want)
				got := mux.(jrpc2.Namer).Names()
				res.Evaluations++
				if !sort.StringsAreSorted(got) {
					add(Cell{Mux: mi + 1, Builtin: builtin, Name: []string{"Names()"}}, fmt.Sprintf("Names() is not sorted: %q", got))
				} else if fmt.Sprint(got) != fmt.Sprint(want) {
					add(Cell{Mux: mi + 1, Builtin: builtin, Name: []string{"Names()"}}, fmt.Sprintf("Names() = %q, want %q", got, want))
				}
				// the list rpc.serverInfo reports is the assigner's at the time of the call, and nobody else's to change:
				// not a list remembered from an earlier call, not one a caller of ServerInfo() has written into
				if builtin && mi%nshard == shard {
					infoMethods := func() []string {
						_, outs, _ := feed(`{"jsonrpc":"2.0","id":"i","method":"rpc.serverInfo"}`)
						var rsp struct {
							Result struct {
								Methods []string `json:"methods"`
							} `json:"result"`
						}
						if len(outs) == 1 {
							json.Unmarshal(outs[0], &rsp)
						}
						return rsp.Result.Methods
					}
					cell := Cell{Mux: mi + 1, Builtin: builtin, Name: []string{"rpc", "serverInfo"}}
					res.Evaluations += 3
					if m := infoMethods(); fmt.Sprint(m) != fmt.Sprint(want) {
						add(cell, fmt.Sprintf("methods %q, want %q", m, want))
					}
					inf := r.srv.ServerInfo()
					for i := range inf.Methods {
						inf.Methods[i] = "scribbled"
					}
					if m := infoMethods(); fmt.Sprint(m) != fmt.Sprint(want) {
						add(cell, fmt.Sprintf("after a caller of ServerInfo() wrote into the list it was given: methods %q, want %q", m, want))
					}
					r.mu.Lock()
					r.extra = []string{"zzz.late"}
					r.mu.Unlock()
					want2 := append(append([]string(nil), want...), "zzz.late")
					sort.Strings(want2)
					if m := infoMethods(); fmt.Sprint(m) != fmt.Sprint(want2) {
						add(cell, fmt.Sprintf("after the assigner gained a method: methods %q, want %q", m, want2))
					}
					r.mu.Lock()
					r.extra = nil
					r.mu.Unlock()
				}
				for ci, c := range tab.Cells {
					if c.Mux != mi+1 || c.Builtin != builtin || ci%nshard != shard {
						continue
					}
					res.Cells++
					res.Classes[c.K]++
					name := join(c.Name)
					mjs, _ := json.Marshal(name)
					wantPath := ""
					for _, p := range c.Path {
						wantPath += "/" + join(p)
					}
					for vi, note := range []bool{false, true, false} {
						if vi == 2 { // third pass: the same call with the method name spelled in escapes
							if name == "" {
								continue
							}
							mjs = []byte(escaped(name))
						}
						id := ""
						txt := fmt.Sprintf(`{"jsonrpc":"2.0","method":%s,"params":{"n":%d}}`, mjs, ci)
						if !note {
							id = strconv.Itoa(1000 + ci)
							txt = fmt.Sprintf(`{"jsonrpc":"2.0","id":%s,"method":%s,"params":{"n":%d}}`, id, mjs, ci)
						}
						calls, outs, asg := feed(txt)
						res.Evaluations++
						why := ""
						switch c.K {
						case "handler":
							if len(calls) != 1 || calls[0].path != wantPath {
								why = fmt.Sprintf("ran %v, want handler %s", calls, wantPath)
							} else if x := calls[0]; x.method != name || x.id != id || x.params != fmt.Sprintf(`{"n":%d}`, ci) || !x.inbOK || !x.srvOK {
								why = fmt.Sprintf("handler saw %+v (want method %q id %q, InboundRequest == request, ServerFromContext == server)", x, name, id)
							}
							if why == "" && !note && (len(outs) != 1 || !strings.Contains(string(outs[0]), `"result":"`+wantPath+`"`)) {
								why = fmt.Sprintf("outputs %q, want result %q", outs, wantPath)
							}
						case "notfound":
							if len(calls) != 0 {
								why = fmt.Sprintf("handler %v ran for a name that maps to nothing", calls)
							} else if !note && (len(outs) != 1 || !strings.Contains(string(outs[0]), `"code":-32601`)) {
								why = fmt.Sprintf("outputs %q, want -32601", outs)
							}
						case "info":
							if len(calls) != 0 {
								why = "a user handler ran for rpc.serverInfo"
							} else if !note {
								var rsp struct {
									Result struct {
										Methods   []string       `json:"methods"`
										Metrics   map[string]any `json:"metrics"`
										StartTime string         `json:"startTime"`
									} `json:"result"`
								}
								if len(outs) != 1 || json.Unmarshal(outs[0], &rsp) != nil {
									why = fmt.Sprintf("outputs %q, want a server info result", outs)
								} else if fmt.Sprint(rsp.Result.Methods) != fmt.Sprint(want) || len(rsp.Result.Metrics) == 0 || rsp.Result.StartTime == "" {
									why = fmt.Sprintf("server info %+v, want methods %q, metrics and start time", rsp.Result, want)
								}
							}
						case "empty":
							if len(calls) != 0 {
								why = "handler ran for an empty method name"
							}
						}
						// reserved names are withheld from the assigner; every other name reaches it verbatim,
						// with the inbound request available
						if why == "" && c.K != "empty" {
							reserved := builtin && strings.HasPrefix(name, "rpc.")
							if reserved && len(asg) != 0 {
								why = fmt.Sprintf("assigner consulted (%v) for a reserved name", asg)
							} else if !reserved && (len(asg) != 1 || asg[0] != name+"|"+name) {
								why = fmt.Sprintf("assigner saw %v, want exactly one lookup of %q with the inbound request", asg, name)
							}
						}
						if note && len(outs) != 0 && why == "" && c.K != "empty" {
							why = fmt.Sprintf("a notification was answered: %q", outs)
						}
						if why != "" {
							add(c, fmt.Sprintf("note=%v: %s", note, why))
						}
					}
					if len(res.Samples) < 4 && c.K == "handler" {
						res.Samples = append(res.Samples, name+" -> "+wantPath)
					}
				}
				// batches: one lookup per member - also for a name that was just looked up - each with ITS inbound request
				// available; every member reaches the handler of its own name with its own id and parameters
				var hname, hpath string
				for _, c := range tab.Cells {
					if c.Mux == mi+1 && c.Builtin == builtin && c.K == "handler" && !(builtin && strings.HasPrefix(join(c.Name), "rpc.")) {
						hname = join(c.Name)
						hpath = ""
						for _, p := range c.Path {
							hpath += "/" + join(p)
						}
						break
					}
				}
				if hname != "" && shard == 0 {
					hj, _ := json.Marshal(hname)
					nf := "no.such.method"
					type mem struct {
						name, id, params string
					}
					for bi, b := range [][]mem{
						{{hname, "1", `{"n":1}`}, {hname, "2", `{"n":2}`}, {hname, "", `{"n":3}`}, {nf, "4", `{"n":4}`}, {nf, "5", `{"n":5}`}, {hname, "6", `{"n":6}`}},
						{{nf, "", `{"n":1}`}, {hname, "", `{"n":2}`}, {hname, "3", `{"n":3}`}, {hname, "", `{"n":4}`}},
					} {
						var parts, wantAsg []string
						for _, m := range b {
							mj := string(hj)
							if m.name == nf {
								mj = strconv.Quote(nf)
							}
							if m.id == "" {
								parts = append(parts, fmt.Sprintf(`{"jsonrpc":"2.0","method":%s,"params":%s}`, mj, m.params))
							} else {
								parts = append(parts, fmt.Sprintf(`{"jsonrpc":"2.0","id":%s,"method":%s,"params":%s}`, m.id, mj, m.params))
							}
							wantAsg = append(wantAsg, m.name+"|"+m.id+"|"+m.params)
						}
						a0 := len(r.asgReq)
						calls, outs, _ := feed("[" + strings.Join(parts, ",") + "]")
						res.Evaluations++
						gotAsg := append([]string(nil), r.asgReq[a0:]...)
						cell := Cell{Mux: mi + 1, Builtin: builtin, Name: []string{fmt.Sprintf("batch %d", bi)}}
						if fmt.Sprint(gotAsg) != fmt.Sprint(wantAsg) {
							add(cell, fmt.Sprintf("assigner lookups %q, want one per member with its own inbound request: %q", gotAsg, wantAsg))
						}
						var wantCalls, gotCalls []string
						for _, m := range b {
							if m.name == hname {
								wantCalls = append(wantCalls, hpath+"|"+m.id+"|"+m.params)
							}
						}
						for _, c := range calls {
							ok := ""
							if !c.inbOK || !c.srvOK {
								ok = "|context values wrong"
							}
							gotCalls = append(gotCalls, c.path+"|"+c.id+"|"+c.params+ok)
						}
						sort.Strings(wantCalls)
						sort.Strings(gotCalls)
						if fmt.Sprint(gotCalls) != fmt.Sprint(wantCalls) {
							add(cell, fmt.Sprintf("handlers ran %q, want %q", gotCalls, wantCalls))
						}
						if len(outs) != 1 {
							add(cell, fmt.Sprintf("%d output records for one batch", len(outs)))
						}
					}
				}
				ch.PeerClose()
				r.srv.Wait()
				// the same server once more, on a fresh channel: the same methods, and the start time it was given
				if builtin && mi%nshard == shard {
					for run := 2; run <= 3; run++ {
						ch2 := vh.NewVChan(fmt.Sprint("d", run), rec, false)
						r.srv.Start(ch2)
						ch2.Push([]byte(`{"jsonrpc":"2.0","id":"again","method":"rpc.serverInfo"}`), nil)
						synctest.Wait()
						ch2.Lock()
						outs := append([][]byte(nil), ch2.Out...)
						ch2.Unlock()
						var rsp struct {
							Result struct {
								Methods   []string  `json:"methods"`
								StartTime time.Time `json:"startTime"`
							} `json:"result"`
						}
						res.Evaluations++
						cell := Cell{Mux: mi + 1, Builtin: builtin, Name: []string{"rpc", "serverInfo"}}
						if len(outs) != 1 || json.Unmarshal(outs[0], &rsp) != nil {
							add(cell, fmt.Sprintf("run %d of the server: outputs %q, want a server info result", run, outs))
						} else if fmt.Sprint(rsp.Result.Methods) != fmt.Sprint(want) {
							add(cell, fmt.Sprintf("run %d of the server: methods %q, want %q", run, rsp.Result.Methods, want))
						} else if !startTime.IsZero() && !rsp.Result.StartTime.Equal(startTime) {
							add(cell, fmt.Sprintf("run %d of the server: start time %v, the server was given %v", run, rsp.Result.StartTime, startTime))
						}
						ch2.PeerClose()
						r.srv.Wait()
					}
				}
			}
		}
	})
	out, _ := json.Marshal(res)
	if p := os.Getenv("VERIF_OUT"); p != "" {
		os.WriteFile(p, out, 0o644)
	}
}
