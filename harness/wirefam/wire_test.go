// Package wirefam replays the TLC-evaluated reference table of spec/Wire.tla
// (C02, C13a) into a real Server and into ParseRequests: every abstract cell is
// concretised into byte strings, sent as one record, and the observed outcome
// (handler invocations, output records) is compared with the outcome set the
// table allows.  Concretisation and abstraction are deliberately dumb
// (string templates, encoding/json generic decode).
package wirefam

import (
	"bytes"
	"context"
	"encoding/json"
	"fmt"
	"math/rand/v2"
	"os"
	"sort"
	"strconv"
	"strings"
	"sync"
	"testing"
	"testing/synctest"
	"time"

	"github.com/creachadair/jrpc2"
	"github.com/creachadair/jrpc2/handler"
	"verif/harness/vh"
)

type Verdict struct {
	Kind    string `json:"kind"`
	Answer  bool   `json:"answer"`
	Echo    string `json:"echo"`
	MayDrop bool   `json:"mayDrop"`
}
type Cell struct {
	Ver, ID, Method, Params, Extra string
	Plain, Push                    Verdict
	Flagged                        string
}
type cellJSON struct {
	Ver     string  `json:"ver"`
	ID      string  `json:"id"`
	Method  string  `json:"method"`
	Params  string  `json:"params"`
	Extra   string  `json:"extra"`
	Plain   Verdict `json:"plain"`
	Push    Verdict `json:"push"`
	Flagged string  `json:"flagged"`
}
type Table struct {
	Cells      []cellJSON `json:"cells"`
	NonObj     Verdict    `json:"nonobj"`
	Garbage    int        `json:"garbage"`
	EmptyArray int        `json:"emptyArray"`
}

// idText gives concrete spellings of an id class.
func idText(cls string, k int) string {
	switch cls {
	case "int":
		return strconv.Itoa(7 + k%5)
	case "neg":
		return "-3"
	case "frac":
		return "1.5"
	case "exp":
		return "1e3"
	case "str":
		return fmt.Sprintf(`"a%d"`, k%7)
	case "emptyStr":
		return `""`
	case "null":
		return "null"
	case "bool":
		return "true"
	case "arr":
		return "[1]"
	case "obj":
		return `{"x":1}`
	}
	return ""
}

// Concrete renders a cell as a JSON object text; variant selects key order / whitespace.
// oddName: the names of methods nobody has registered are arbitrary strings - control characters, DEL, characters
// beyond the basic plane included (what a name holds must not change what the server answers). Returns the JSON
// text and the decoded name, by cell.
func oddName(class string, k int) [2]string {
	names := [][2]string{{`"nope"`, "nope"}, {`"no\u0007pe"`, "no\apep"[:3] + "pe"}, {"\"no\x7fpe\"", "no\x7fpe"}, {`"\u0000nul"`, "\x00nul"},
		{`"tag\udb40\udc01"`, "tag\U000e0001"}, {`"nope"`, "nope"}, {`"v\u000bt\u001f"`, "v\vt\x1f"}}
	n := names[k%len(names)]
	if class == "reserved" {
		if n[1] == "nope" {
			return [2]string{`"rpc.nope"`, "rpc.nope"}
		}
		return [2]string{`"rpc.` + n[0][1:], "rpc." + n[1]}
	}
	return n
}

func Concrete(c cellJSON, k int, variant int, rng *rand.Rand) string {
	var kv [][2]string
	switch c.Ver {
	case "ok":
		kv = append(kv, [2]string{"jsonrpc", `"2.0"`})
	case "wrongStr":
		kv = append(kv, [2]string{"jsonrpc", `"1.0"`})
	case "nonStr":
		kv = append(kv, [2]string{"jsonrpc", `2`})
	case "null":
		kv = append(kv, [2]string{"jsonrpc", `null`})
	}
	if c.ID != "absent" {
		kv = append(kv, [2]string{"id", idText(c.ID, k)})
	}
	switch c.Method {
	case "known":
		kv = append(kv, [2]string{"method", `"h"`})
	case "unknown":
		kv = append(kv, [2]string{"method", oddName("unknown", k)[0]})
	case "reserved":
		kv = append(kv, [2]string{"method", oddName("reserved", k)[0]})
	case "info":
		kv = append(kv, [2]string{"method", `"rpc.serverInfo"`})
	case "empty":
		kv = append(kv, [2]string{"method", `""`})
	case "nonStr":
		kv = append(kv, [2]string{"method", `5`})
	case "null":
		kv = append(kv, [2]string{"method", `null`})
	}
	switch c.Params {
	case "null":
		kv = append(kv, [2]string{"params", `null`})
	case "arr":
		kv = append(kv, [2]string{"params", `[1,"x"]`})
	case "obj":
		kv = append(kv, [2]string{"params", `{"a":[1,2],"b":null}`})
	case "num":
		kv = append(kv, [2]string{"params", `7`})
	case "str":
		kv = append(kv, [2]string{"params", `"p"`})
	case "bool":
		kv = append(kv, [2]string{"params", `false`})
	}
	switch c.Extra {
	case "unknownKey":
		// member names are case-sensitive: "Method" or "ID" are unknown members like any other (encoding/json would fold them)
		uk := [][2]string{{"zzz", `1`}, {"Method", `"h"`}, {"ID", `77`}, {"JSONRPC", `"2.0"`}, {"Params", `[1]`}, {"METHOD", `"h"`}, {"Id", `5`}, {"j\u017fonrpc", `"2.0"`},
			{"Result", `1`}, {"Error", `{"code":1,"message":"m"}`}, {"bogus", `null`}, {"Method", `null`}, {"", `null`}, {"", `1`}} // (an unknown member is unknown whatever its value)
		kv = append(kv, uk[(k+variant)%len(uk)])
	case "result":
		kv = append(kv, [2]string{"result", `"r"`})
	case "errObj":
		kv = append(kv, [2]string{"error", `{"code":1,"message":"m"}`})
	case "errBad":
		kv = append(kv, [2]string{"error", `"bad"`})
	}
	sep, col := ",", ":"
	if variant > 0 {
		rng.Shuffle(len(kv), func(i, j int) { kv[i], kv[j] = kv[j], kv[i] })
		if variant > 1 {
			sep, col = " ,\t", " : "
		}
		if variant > 2 { // the same strings spelled with JSON escapes: names and values are compared as values, not as bytes
			for i := range kv {
				switch kv[i][1] {
				case `"h"`:
					kv[i][1] = `"\u0068"`
				case `"2.0"`:
					kv[i][1] = `"2\u002e0"`
				case `"rpc.serverInfo"`:
					kv[i][1] = `"rpc\u002eserverInfo"`
				case `"rpc.nope"`:
					kv[i][1] = `"\u0072pc.nope"`
				}
				switch kv[i][0] {
				case "method":
					kv[i][0] = `m\u0065thod`
				case "id":
					kv[i][0] = `\u0069d`
				}
			}
		}
	}
	var parts []string
	for _, p := range kv {
		parts = append(parts, fmt.Sprintf("\"%s\"%s%s", p[0], col, p[1]))
	}
	return "{" + strings.Join(parts, sep) + "}"
}

func nonObjText(cls string) string {
	return map[string]string{"num": "5", "str": `"s"`, "null": "null", "true": "true", "arr": "[1]"}[cls]
}

type hcall struct{ Method, ID, Params string }

type rig struct {
	rec   *vh.Recorder
	ch    *vh.VChan
	srv   *jrpc2.Server
	mu    sync.Mutex // the members of a batch run their handlers concurrently
	calls []hcall
	nout  int
}

func newRig(push bool) *rig {
	r := &rig{rec: &vh.Recorder{}}
	r.ch = vh.NewVChan("w", r.rec, false)
	h := func(ctx context.Context, req *jrpc2.Request) (any, error) {
		r.mu.Lock()
		r.calls = append(r.calls, hcall{req.Method(), req.ID(), req.ParamString()})
		r.mu.Unlock()
		return "ok", nil
	}
	r.srv = jrpc2.NewServer(handler.Map{"h": h}, &jrpc2.ServerOptions{AllowPush: push, Concurrency: 4})
	r.srv.Start(r.ch)
	return r
}

// feed sends one record and returns the handler calls and output records it provoked.
func (r *rig) feed(rec []byte) ([]hcall, [][]byte) {
	r.mu.Lock()
	c0 := len(r.calls)
	r.mu.Unlock()
	lastFed = string(rec)
	r.ch.Push(rec, nil)
	synctest.Wait()
	r.ch.Lock()
	outs := append([][]byte(nil), r.ch.Out[r.nout:]...)
	r.nout = len(r.ch.Out)
	r.ch.Unlock()
	r.mu.Lock()
	defer r.mu.Unlock()
	return append([]hcall(nil), r.calls[c0:]...), outs
}

func (r *rig) alive() bool {
	calls, outs := r.feed([]byte(`{"jsonrpc":"2.0","id":"probe","method":"h"}`))
	return len(calls) == 1 && len(outs) == 1 && bytes.Contains(outs[0], []byte(`"id":"probe"`)) && bytes.Contains(outs[0], []byte(`"result"`))
}

// onHang is called when a server does not finish after its channel has closed (it is stuck for good: the clock of
// the bubble is virtual, an hour passes only when nothing in it can move).  The test records the verdict, writes its
// result and ends the process: a bubble with goroutines that can never finish cannot be left in any other way.
var onHang func()
var lastFed string

func (r *rig) close() {
	r.ch.PeerClose()
	done := make(chan struct{})
	go func() { r.srv.Wait(); close(done) }()
	select {
	case <-done:
	case <-time.After(time.Hour):
		if onHang != nil {
			onHang()
		}
		panic("server hung and no hang handler is installed")
	}
}

// rspItem is the independent validator's view of one response object.
type rspItem struct {
	ok      bool // a valid JSON-RPC 2.0 response object
	why     string
	id      string
	isError bool
	code    int
}

func validateResponse(raw json.RawMessage) rspItem {
	var obj map[string]json.RawMessage
	if err := json.Unmarshal(raw, &obj); err != nil {
		return rspItem{why: "not an object"}
	}
	var v string
	if json.Unmarshal(obj["jsonrpc"], &v) != nil || v != "2.0" {
		return rspItem{why: "version"}
	}
	id, ok := obj["id"]
	if !ok {
		return rspItem{why: "no id"}
	}
	_, hasR := obj["result"]
	e, hasE := obj["error"]
	if hasR == hasE {
		return rspItem{why: "result xor error"}
	}
	for k := range obj {
		if k != "jsonrpc" && k != "id" && k != "result" && k != "error" {
			return rspItem{why: "extra member " + k}
		}
	}
	it := rspItem{ok: true, id: strings.TrimSpace(string(id)), isError: hasE}
	if hasE {
		var eo map[string]json.RawMessage
		if json.Unmarshal(e, &eo) != nil {
			return rspItem{why: "error not an object"}
		}
		var code json.Number
		dec := json.NewDecoder(bytes.NewReader(eo["code"]))
		dec.UseNumber()
		if dec.Decode(&code) != nil {
			return rspItem{why: "code"}
		}
		n, err := code.Int64()
		if err != nil {
			return rspItem{why: "code not an integer"}
		}
		var msg string
		if m, ok := eo["message"]; !ok || json.Unmarshal(m, &msg) != nil {
			return rspItem{why: "message not a string"}
		}
		it.code = int(n)
	}
	return it
}

// splitOutput parses an output record into response items; isArr reports the envelope.
func splitOutput(out []byte) (items []rspItem, isArr bool, err error) {
	t := bytes.TrimSpace(out)
	if len(t) > 0 && t[0] == '[' {
		var raws []json.RawMessage
		if e := json.Unmarshal(t, &raws); e != nil {
			return nil, true, e
		}
		for _, r := range raws {
			items = append(items, validateResponse(r))
		}
		return items, true, nil
	}
	if !json.Valid(t) {
		return nil, false, fmt.Errorf("invalid JSON")
	}
	return []rspItem{validateResponse(t)}, false, nil
}

type memberCase struct {
	text string
	v    Verdict
	id   string // concrete id text to echo ("null" if none)
	desc string
}

// expectItem checks one response item against a member verdict; "" = fine.
func expectItem(it rspItem, m memberCase) string {
	if !it.ok {
		return "emitted an invalid response object: " + it.why
	}
	if it.id != m.id {
		return fmt.Sprintf("id %s, want %s", it.id, m.id)
	}
	switch m.v.Kind {
	case "run", "info":
		if it.isError {
			return fmt.Sprintf("error %d, want a result", it.code)
		}
	case "mnf":
		if !it.isError || it.code != -32601 {
			return fmt.Sprintf("want -32601, got error=%v code=%d", it.isError, it.code)
		}
	case "invalid":
		if !it.isError || (it.code != -32700 && it.code != -32600) {
			return fmt.Sprintf("want -32700/-32600, got error=%v code=%d", it.isError, it.code)
		}
	default:
		return "unexpected answer for a " + m.v.Kind + " member"
	}
	return ""
}

// checkRecord feeds a record made of members (single object when !arr) and compares with the verdicts.
// pads are the ways insignificant JSON whitespace (space, tab, LF, CR) is put around and inside a record
var pads = [][4]string{ // before, after '[', around ',', after
	{"", "", ",", ""}, {" ", "", ",", " "}, {"\r\n", "", ",", ""}, {"\r", " ", ",\r", "\r"}, {"\t\n ", "\r\n", "\t,\n", "\n"},
	{"\n", "\t", " , ", "\r\n"}, {" \r", "", ",", "\t"},
}
var padCounter int

func checkRecord(r *rig, members []memberCase, arr bool) (string, []byte) {
	var texts []string
	for _, m := range members {
		texts = append(texts, m.text)
	}
	padCounter++
	pd := pads[padCounter%len(pads)]
	rec := pd[0] + texts[0] + pd[3]
	if arr {
		rec = pd[0] + "[" + pd[1] + strings.Join(texts, pd[2]) + pd[1] + "]" + pd[3]
	}
	calls, outs := r.feed([]byte(rec))
	wantCalls := 0
	for _, m := range members {
		if m.v.Kind == "run" {
			wantCalls++
		}
	}
	if len(calls) != wantCalls {
		return fmt.Sprintf("%d handler invocations, want %d (%v)", len(calls), wantCalls, calls), []byte(rec)
	}
	// expected answered members, in order; members with mayDrop may be missing
	if len(outs) > 1 {
		return fmt.Sprintf("%d output records for one inbound record", len(outs)), []byte(rec)
	}
	var items []rspItem
	if len(outs) == 1 {
		var isArr bool
		var err error
		items, isArr, err = splitOutput(outs[0])
		if err != nil {
			return "output is not valid JSON: " + string(outs[0]), []byte(rec)
		}
		if isArr != arr {
			return fmt.Sprintf("output array=%v for input array=%v: %s", isArr, arr, outs[0]), []byte(rec)
		}
		if len(items) == 0 {
			return "empty array emitted", []byte(rec)
		}
	}
	// align items with members in order; a mayDrop member may be skipped (any consistent alignment will do)
	var firstWhy string
	var match func(mi, ii int) bool
	match = func(mi, ii int) bool {
		for mi < len(members) && !members[mi].v.Answer {
			mi++
		}
		if mi == len(members) {
			if ii != len(items) && firstWhy == "" {
				firstWhy = fmt.Sprintf("%d unexpected extra response item(s)", len(items)-ii)
			}
			return ii == len(items)
		}
		m := members[mi]
		if ii < len(items) {
			why := expectItem(items[ii], m)
			if why == "" && match(mi+1, ii+1) {
				return true
			}
			if why != "" && firstWhy == "" {
				firstWhy = fmt.Sprintf("member %s: %s", m.desc, why)
			}
		} else if !m.v.MayDrop && firstWhy == "" {
			firstWhy = fmt.Sprintf("member %s: no answer", m.desc)
		}
		return m.v.MayDrop && match(mi+1, ii)
	}
	if !match(0, 0) {
		return fmt.Sprintf("%s (outputs %q)", firstWhy, outs), []byte(rec)
	}
	return "", []byte(rec)
}

func echoText(c cellJSON, v Verdict, k int) string {
	if v.Echo == "null" {
		return "null"
	}
	return idText(c.ID, k)
}

// checkParse compares ParseRequests with the table for one record of members.
func checkParse(rec []byte, cells []cellJSON, ks []int, nonobj []bool) string {
	prs, err := jrpc2.ParseRequests(rec)
	if err != nil {
		return "ParseRequests reported a top-level error for valid JSON: " + err.Error()
	}
	if len(prs) != len(cells) {
		return fmt.Sprintf("ParseRequests returned %d entries for %d members", len(prs), len(cells))
	}
	for i, p := range prs {
		if nonobj[i] {
			if p.Error == nil {
				return fmt.Sprintf("entry %d: non-object member not flagged", i)
			}
			continue
		}
		c := cells[i]
		switch c.Flagged {
		case "yes":
			if p.Error == nil {
				return fmt.Sprintf("entry %d: structurally invalid member not flagged", i)
			} else if p.Error.Code != jrpc2.ParseError && p.Error.Code != jrpc2.InvalidRequest {
				return fmt.Sprintf("entry %d: flagged with code %d", i, p.Error.Code)
			}
		case "no":
			if p.Error != nil {
				return fmt.Sprintf("entry %d: valid member flagged: %v", i, p.Error)
			}
			wantID := ""
			if c.ID != "absent" && c.ID != "null" {
				wantID = idText(c.ID, ks[i])
			}
			if p.ID != wantID {
				return fmt.Sprintf("entry %d: ID %q, want %q", i, p.ID, wantID)
			}
			wantM := map[string]string{"known": "h", "unknown": oddName("unknown", ks[i])[1], "reserved": oddName("reserved", ks[i])[1], "info": "rpc.serverInfo"}[c.Method]
			if p.Method != wantM {
				return fmt.Sprintf("entry %d: Method %q, want %q", i, p.Method, wantM)
			}
		}
	}
	return ""
}

type result struct {
	Evaluations int            `json:"evaluations"`
	Cells       int            `json:"cells"`
	Batches     int            `json:"batches"`
	Aborted     bool           `json:"aborted"`
	Patterns    int            `json:"patterns"`
	Random      int            `json:"random"`
	Classes     map[string]int `json:"classes"`
	Violations  []violation    `json:"violations"`
	Samples     []string       `json:"samples"`
}
type violation struct {
	Property string `json:"property"`
	Input    string `json:"input"`
	Push     bool   `json:"push"`
	Why      string `json:"why"`
}

// lookalikeReplies: on a push-enabled server with one callback outstanding (number N), reply-shaped members whose id is
// spelled like N but is another id ("N" as a string, N.0, NeO, -N) match no outstanding callback: they are dropped, the
// callback waits on, the server neither crashes nor answers them, their neighbours in a batch are served; the reply
// with the id as issued then completes the callback.
func lookalikeReplies(addV func(prop, input string, push bool, why string), res *result) {
	r := newRig(true)
	defer r.close()
	type cbres struct {
		rsp *jrpc2.Response
		err error
		p   any
	}
	done := make(chan cbres, 1)
	go func() {
		var o cbres
		defer func() { o.p = recover(); done <- o }()
		o.rsp, o.err = r.srv.Callback(context.Background(), "cb", nil)
	}()
	synctest.Wait()
	r.ch.Lock()
	outs := append([][]byte(nil), r.ch.Out[r.nout:]...)
	r.nout = len(r.ch.Out)
	r.ch.Unlock()
	var req struct {
		ID json.RawMessage `json:"id"`
	}
	if len(outs) != 1 || json.Unmarshal(outs[0], &req) != nil || len(req.ID) == 0 {
		panic(fmt.Sprintf("harness: no callback request on the wire: %q", outs))
	}
	id := string(req.ID)
	for _, alt := range []string{`"` + id + `"`, id + ".0", id + "e0", "-" + id, `" ` + id + `"`, `"\u003` + id[:1] + `"`} {
		for fi, form := range []string{`{"jsonrpc":"2.0","id":%s,"result":"wrong"}`, `[{"jsonrpc":"2.0","id":%s,"error":{"code":1,"message":"wrong"}}]`,
			`[{"jsonrpc":"2.0","id":%s,"result":"wrong"},{"jsonrpc":"2.0","id":"q","method":"h"}]`, `{"id":%s,"result":null}`} {
			txt := fmt.Sprintf(form, alt)
			calls, outs := r.feed([]byte(txt))
			res.Evaluations++
			res.Classes["lookalike-reply"]++
			select {
			case o := <-done:
				addV("C02", txt, true, fmt.Sprintf("callback %s outstanding: a reply with id %s ended it (panic=%v err=%v)", id, alt, o.p, o.err))
				return
			default:
			}
			wantCalls, wantOuts := 0, 0
			if fi == 2 {
				wantCalls, wantOuts = 1, 1
			}
			if len(calls) != wantCalls || len(outs) != wantOuts {
				addV("C02", txt, true, fmt.Sprintf("callback %s outstanding: %d handler calls and %d records sent (%q), want %d and %d: a reply that matches no outstanding callback is dropped", id, len(calls), len(outs), outs, wantCalls, wantOuts))
				return
			}
		}
	}
	r.feed([]byte(fmt.Sprintf(`{"jsonrpc":"2.0","id":%s,"result":"right"}`, id)))
	res.Evaluations++
	select {
	case o := <-done:
		var got string
		if o.p != nil || o.err != nil || o.rsp.UnmarshalResult(&got) != nil || got != "right" {
			addV("C02", id, true, fmt.Sprintf("the reply to callback %s: panic=%v err=%v result=%q", id, o.p, o.err, got))
		}
	default:
		addV("C02", id, true, "the reply with the callback's own id did not complete it")
	}
}

func TestWire(t *testing.T) {
	tp := os.Getenv("VERIF_TABLE")
	if tp == "" {
		t.Skip("no VERIF_TABLE")
	}
	var tab Table
	b, err := os.ReadFile(tp)
	if err != nil {
		t.Fatal(err)
	}
	if err := json.Unmarshal(b, &tab); err != nil {
		t.Fatal(err)
	}
	shard, _ := strconv.Atoi(os.Getenv("VERIF_SHARD"))
	nshard, _ := strconv.Atoi(os.Getenv("VERIF_NSHARD"))
	if nshard == 0 {
		nshard = 1
	}
	seed, _ := strconv.ParseUint(os.Getenv("VERIF_SEED"), 10, 64)
	variants, _ := strconv.Atoi(os.Getenv("VERIF_VARIANTS"))
	if variants == 0 {
		variants = 1
	}
	nrandom, _ := strconv.Atoi(os.Getenv("VERIF_RANDOM"))
	nbatch, _ := strconv.Atoi(os.Getenv("VERIF_BATCHES"))
	replay := os.Getenv("VERIF_REPLAY_INPUT")
	rng := rand.New(rand.NewPCG(seed, uint64(shard)+1))
	res := result{Classes: map[string]int{}}
	nviol := map[string]int{}
	addV := func(prop, input string, push bool, why string) {
		if nviol[prop] < 20 { // per property: the C02 verdicts must not crowd out the C13 ones
			nviol[prop]++
			res.Violations = append(res.Violations, violation{prop, input, push, why})
		}
	}
	synctest.Test(t, func(t *testing.T) {
		if replay == "" && shard == 0 {
			lookalikeReplies(addV, &res)
		}
		for _, push := range []bool{false, true} {
			onHang = func() {
				// the verdict of the record that made the server stop serving is already in the list (or this is the
				// first sign): either way the server never finishes, which is itself the failure of C02's "keeps serving"
				addV("C02", lastFed, push, "the server never finishes after its channel closed: Wait does not return (stuck after this or a preceding record)")
				res.Aborted = true
				out, _ := json.Marshal(res)
				if p := os.Getenv("VERIF_OUT"); p != "" {
					os.WriteFile(p, out, 0o644)
				}
				os.Exit(0)
			}
			r := newRig(push)
			verdict := func(c cellJSON) Verdict {
				if push {
					return c.Push
				}
				return c.Plain
			}
			renew := func() {
				r.close()
				r = newRig(push)
			}
			if replay != "" {
				calls, outs := r.feed([]byte(replay))
				fmt.Printf("REPLAY push=%v calls=%v outs=%q alive=%v\n", push, calls, outs, r.alive())
				r.close()
				continue
			}
			// (1) every cell of the single-member product, as a single object and (every 3rd) as a 1-element array
			for i, c := range tab.Cells {
				if i%nshard != shard {
					continue
				}
				if !push {
					res.Cells++
				}
				for v := 0; v < variants; v++ {
					txt := Concrete(c, i, v, rng)
					vd := verdict(c)
					mc := memberCase{text: txt, v: vd, id: echoText(c, vd, i), desc: fmt.Sprint(c.Ver, "/", c.ID, "/", c.Method, "/", c.Params, "/", c.Extra)}
					arr := (i+v)%3 == 0
					why, rec := checkRecord(r, []memberCase{mc}, arr)
					res.Evaluations++
					res.Classes[vd.Kind]++
					if why != "" {
						addV("C02", string(rec), push, why)
						renew()
					} else if len(res.Samples) < 4 && i%977 == 0 {
						res.Samples = append(res.Samples, string(rec))
					}
					if !push {
						if why := checkParse(rec, []cellJSON{c}, []int{i}, []bool{false}); why != "" {
							addV("C13", string(rec), false, why)
						}
					}
				}
				if i%200 == 0 && !r.alive() {
					addV("C02", "(liveness probe after cell "+strconv.Itoa(i)+")", push, "server stopped serving")
					renew()
				}
			}
			// (1b) a record that is one JSON value but not an object or an array (a number, a string, null, true): one invalid
			// member, answered as such - not undecodable input; ParseRequests: no top-level error, one flagged entry
			for _, cls := range []string{"num", "str", "null", "true"} {
				mc := memberCase{text: nonObjText(cls), v: tab.NonObj, id: "null", desc: "top-level " + cls}
				why, rec := checkRecord(r, []memberCase{mc}, false)
				res.Evaluations++
				if why != "" {
					addV("C02", string(rec), push, why)
					renew()
				}
				if !push {
					if why := checkParse(rec, []cellJSON{{}}, []int{0}, []bool{true}); why != "" {
						addV("C13", string(rec), false, why)
					}
				}
			}
			// (2) batches of 2..3 members drawn from the table (and non-object members)
			for n := 0; n < nbatch; n++ {
				k := 2 + rng.IntN(2)
				var ms []memberCase
				var cs []cellJSON
				var ks []int
				var no []bool
				used := map[string]bool{}
				for j := 0; j < k; j++ {
					if rng.IntN(8) == 0 {
						cls := []string{"num", "str", "null", "true", "arr"}[rng.IntN(5)]
						ms = append(ms, memberCase{text: nonObjText(cls), v: tab.NonObj, id: "null", desc: "nonobject " + cls})
						cs = append(cs, cellJSON{})
						ks = append(ks, 0)
						no = append(no, true)
						continue
					}
					var ci int
					var c cellJSON
					for { // distinct ids within a batch (duplicate ids are C07's business)
						ci = rng.IntN(len(tab.Cells))
						c = tab.Cells[ci]
						if rng.IntN(3) > 0 && c.Ver != "ok" {
							continue // bias towards mostly-valid members
						}
						idt := idText(c.ID, ci)
						if c.ID == "absent" || c.ID == "null" || !used[idt] {
							used[idt] = true
							break
						}
					}
					vd := verdict(c)
					ms = append(ms, memberCase{text: Concrete(c, ci, rng.IntN(3), rng), v: vd, id: echoText(c, vd, ci), desc: fmt.Sprint(c.Ver, "/", c.ID, "/", c.Method, "/", c.Params, "/", c.Extra)})
					cs = append(cs, c)
					ks = append(ks, ci)
					no = append(no, false)
				}
				why, rec := checkRecord(r, ms, true)
				res.Evaluations++
				res.Batches++
				if why != "" {
					addV("C02", string(rec), push, why)
					renew()
				}
				if !push {
					if why := checkParse(rec, cs, ks, no); why != "" {
						addV("C13", string(rec), false, why)
					}
				}
			}
			// (2b) every composition of member classes (by verdict: run and answer, run silently, answer with an error, stay
			// silent, ...) of length 2..4, each class represented by a random cell: where a member of one class stands
			// relative to the others (an invalid one first, two valid ones behind it) is what the dispatch loop counts on
			{
				groups := map[string][]int{}
				var gkeys []string
				for ci, c := range tab.Cells {
					vd := verdict(c)
					k := fmt.Sprint(vd.Kind, "/", vd.Answer, "/", vd.MayDrop)
					if _, ok := groups[k]; !ok {
						gkeys = append(gkeys, k)
					}
					groups[k] = append(groups[k], ci)
				}
				sort.Strings(gkeys)
				var pats [][]int
				var gen func(cur []int, n int)
				gen = func(cur []int, n int) {
					if len(cur) == n {
						pats = append(pats, append([]int(nil), cur...))
						return
					}
					for g := range gkeys {
						gen(append(cur, g), n)
					}
				}
				maxLen, _ := strconv.Atoi(os.Getenv("VERIF_PATLEN"))
				if maxLen == 0 {
					maxLen = 4
				}
				for n, total := 2, 0; n <= maxLen; n++ {
					k := 1
					for i := 0; i < n; i++ {
						k *= len(gkeys)
					}
					if total += k; total > 40000 {
						break
					}
					gen(nil, n)
				}
				res.Patterns += len(pats)
				for pi, pat := range pats {
					if pi%nshard != shard {
						continue
					}
					var ms []memberCase
					var cs []cellJSON
					var ks []int
					var no []bool
					used := map[string]bool{}
					for _, g := range pat {
						var ci int
						var c cellJSON
						for try := 0; ; try++ {
							ci = groups[gkeys[g]][rng.IntN(len(groups[gkeys[g]]))]
							c = tab.Cells[ci]
							idt := idText(c.ID, ci)
							if c.ID == "absent" || c.ID == "null" || !used[idt] || try > 50 {
								used[idt] = true
								break
							}
						}
						vd := verdict(c)
						ms = append(ms, memberCase{text: Concrete(c, ci, rng.IntN(3), rng), v: vd, id: echoText(c, vd, ci), desc: fmt.Sprint(c.Ver, "/", c.ID, "/", c.Method, "/", c.Params, "/", c.Extra)})
						cs = append(cs, c)
						ks = append(ks, ci)
						no = append(no, false)
					}
					why, rec := checkRecord(r, ms, true)
					res.Evaluations++
					res.Batches++
					if why != "" {
						addV("C02", string(rec), push, why)
						renew()
					} else if !r.alive() {
						addV("C02", string(rec), push, "server stopped serving after this record")
						renew()
					}
					if !push {
						if why := checkParse(rec, cs, ks, no); why != "" {
							addV("C13", string(rec), false, why)
						}
					}
				}
			}
			// (3) envelopes and mutated records: survival, valid output, direct errors
			env := []struct {
				txt  string
				code int
			}{{`[]`, tab.EmptyArray}, {` [ ] `, tab.EmptyArray}, {"\r\n[]", tab.EmptyArray}, {"\r[\r]\r", tab.EmptyArray}, {"\t[\n]", tab.EmptyArray}, {"\r\n", tab.Garbage}, {``, tab.Garbage}, {`   `, tab.Garbage}, {`{"jsonrpc":"2.0",`, tab.Garbage},
				{`nonsense`, tab.Garbage}, {`[1,2`, tab.Garbage}, {"\x00\xff", tab.Garbage}, {`{"a":}`, tab.Garbage}, {`}{`, tab.Garbage}}
			// a complete value followed by more bytes is not valid JSON either, whatever the bytes are
			for _, whole := range []string{`{"jsonrpc":"2.0","id":1,"method":"h"}`, `[{"jsonrpc":"2.0","id":5,"method":"h"}]`, `[{"jsonrpc":"2.0","method":"h"}]`, `[]`,
				`[{"jsonrpc":"2.0","id":6,"method":"h"},{"jsonrpc":"2.0","method":"h"}]`} {
				for _, tail := range []string{`]`, `}`, `,`, ` x`, `[]`, `{}`, `null`, `1`, `"s"`, ` ]`, "\n}", `]]`, `:`} {
					env = append(env, struct {
						txt  string
						code int
					}{whole + tail, tab.Garbage})
				}
			}
			for _, e := range env {
				calls, outs := r.feed([]byte(e.txt))
				res.Evaluations++
				bad := ""
				if len(calls) != 0 {
					bad = "handler invoked"
				} else if len(outs) != 1 {
					bad = fmt.Sprintf("%d outputs, want one error object", len(outs))
				} else if items, isArr, err := splitOutput(outs[0]); err != nil || isArr || len(items) != 1 || !items[0].ok || !items[0].isError || items[0].id != "null" || items[0].code != e.code {
					bad = fmt.Sprintf("want single error id null code %d, got %s", e.code, outs[0])
				}
				if bad != "" {
					addV("C02", e.txt, push, bad)
					renew()
				}
				if _, err := jrpc2.ParseRequests([]byte(e.txt)); !push && (err == nil) != json.Valid([]byte(e.txt)) {
					addV("C13", e.txt, false, "ParseRequests top-level error must be reported exactly for invalid JSON")
				}
			}
			for n := 0; n < nrandom; n++ {
				ci := rng.IntN(len(tab.Cells))
				base := []byte(Concrete(tab.Cells[ci], ci, rng.IntN(3), rng))
				if rng.IntN(3) == 0 {
					base = []byte("[" + string(base) + "," + Concrete(tab.Cells[rng.IntN(len(tab.Cells))], n, 0, rng) + "]")
				}
				mut := mutate(base, rng)
				calls, outs := r.feed(mut)
				res.Evaluations++
				res.Random++
				bad := ""
				for _, o := range outs {
					items, _, err := splitOutput(o)
					if err != nil {
						bad = "output is not valid JSON: " + string(o)
					}
					for _, it := range items {
						if !it.ok {
							bad = "invalid response object (" + it.why + "): " + string(o)
						}
					}
				}
				if !json.Valid(mut) {
					if len(calls) != 0 {
						bad = "handler invoked for undecodable input"
					} else if len(outs) != 1 {
						bad = fmt.Sprintf("%d outputs for undecodable input", len(outs))
					}
				}
				if _, err := jrpc2.ParseRequests(mut); !push && (err == nil) != json.Valid(mut) {
					addV("C13", string(mut), false, "ParseRequests top-level error must be reported exactly for invalid JSON")
				}
				if bad != "" {
					addV("C02", string(mut), push, bad)
					renew()
				}
				if n%50 == 49 && !r.alive() {
					addV("C02", string(mut), push, "server stopped serving after this or a preceding record")
					renew()
				}
			}
			if !r.alive() {
				addV("C02", "(final liveness probe)", push, "server stopped serving")
			}
			r.close()
		}
	})
	keys := make([]string, 0, len(res.Classes))
	for k := range res.Classes {
		keys = append(keys, k)
	}
	sort.Strings(keys)
	out, _ := json.Marshal(res)
	if p := os.Getenv("VERIF_OUT"); p != "" {
		os.WriteFile(p, out, 0o644)
	}
}

func mutate(b []byte, rng *rand.Rand) []byte {
	m := append([]byte(nil), b...)
	switch rng.IntN(6) {
	case 0: // truncate
		m = m[:rng.IntN(len(m)+1)]
	case 1: // flip a byte
		if len(m) > 0 {
			m[rng.IntN(len(m))] ^= byte(1 << rng.IntN(8))
		}
	case 2: // delete a byte
		if len(m) > 0 {
			i := rng.IntN(len(m))
			m = append(m[:i], m[i+1:]...)
		}
	case 3: // insert a structural byte
		i := rng.IntN(len(m) + 1)
		cs := []byte(`{}[],:"0 `)
		c := cs[rng.IntN(len(cs))]
		m = append(m[:i], append([]byte{c}, m[i:]...)...)
	case 4: // deep nesting
		m = []byte(strings.Repeat("[", 50+rng.IntN(200)) + string(m) + strings.Repeat("]", 50))
	case 5: // huge number as id
		m = bytes.Replace(m, []byte(`"id":`), []byte(`"id":1`+strings.Repeat("0", 400)), 1)
	}
	return m
}
