// Package loopfam drives the real server.Loop through scenarios generated from
// the TLA+ model LoopImpl inside a testing/synctest bubble: the accepter, the
// services (newService / Assigner / Finish), the connections and their raw
// clients are harness objects; the trace of observable events is judged by TLC
// against LoopContract.
package loopfam

import (
	"context"
	"encoding/json"
	"errors"
	"fmt"
	"io"
	"net"
	"os"
	"runtime"
	"strconv"
	"strings"
	"sync"
	"sync/atomic"
	"testing"
	"testing/synctest"

	"github.com/creachadair/jrpc2"
	"github.com/creachadair/jrpc2/channel"
	"github.com/creachadair/jrpc2/handler"
	"github.com/creachadair/jrpc2/server"
	"verif/harness/vh"
)

type Step struct {
	A    string `json:"a"`
	C    int    `json:"c,omitempty"`
	OK   bool   `json:"ok,omitempty"`
	Kind string `json:"kind,omitempty"`
}
type Opts struct {
	CancelCloses bool `json:"cancelCloses"`
}
type Scenario struct {
	Name  string `json:"name"`
	Seed  uint64 `json:"seed"`
	Opts  Opts   `json:"opts"`
	Steps []Step `json:"steps"`
}

func goid() int64 {
	var buf [64]byte
	s := strings.TrimPrefix(string(buf[:runtime.Stack(buf[:], false)]), "goroutine ")
	v, _ := strconv.ParseInt(s[:strings.IndexByte(s, ' ')], 10, 64)
	return v
}

var errAccept = errors.New("injected accepter failure")

// acceptFailure: what the failing accepter reports - a plain error, or one that calls itself a timeout (an accept
// deadline that passed): Loop gives either back as it is, it does not go round again
func (r *runner) acceptFailure() error {
	if r.nfail.Add(1)%2 == 0 {
		return &net.OpError{Op: "accept", Net: "tcp", Err: timeoutErr{errAccept}}
	}
	return errAccept
}

type timeoutErr struct{ error }

func (timeoutErr) Timeout() bool   { return true }
func (timeoutErr) Temporary() bool { return true }
func (t timeoutErr) Unwrap() error { return t.error }

type accItem struct {
	ch      channel.Channel
	err     error
	thenErr error // the accepter fails with this on the very next call, without waiting for the scenario
}
type accepter struct {
	r           *runner
	in          chan accItem
	net         server.Accepter // server.NetAccepter over a fakeListener (scenarios with cancelCloses)
	injected    atomic.Bool
	cancelAfter atomic.Bool
	pendErr     atomic.Pointer[error]
}

// fakeListener is a net.Listener over the scenario's connection queue, for the real server.NetAccepter: Accept hands out
// the queued connections (or injected failures) and fails with net.ErrClosed once the listener has been closed.
type fakeListener struct {
	a      *accepter
	closed chan struct{}
	once   sync.Once
}
type fakeConn struct {
	net.Conn
	it accItem
}
type fakeAddr struct{}

func (fakeAddr) Network() string { return "fake" }
func (fakeAddr) String() string  { return "fake" }

func (l *fakeListener) Accept() (net.Conn, error) {
	select {
	case it := <-l.a.in:
		if it.err != nil {
			l.a.injected.Store(true)
			return nil, it.err
		}
		return &fakeConn{it: it}, nil
	case <-l.closed:
		return nil, &net.OpError{Op: "accept", Net: "fake", Err: net.ErrClosed}
	}
}
func (l *fakeListener) Close() error   { l.once.Do(func() { close(l.closed) }); return nil }
func (l *fakeListener) Addr() net.Addr { return fakeAddr{} }

// the "framing" NetAccepter is given: the connection already is a channel of the harness
func unwrapFraming(r io.Reader, _ io.WriteCloser) channel.Channel { return r.(*fakeConn).it.ch }

func (a *accepter) Accept(ctx context.Context) (channel.Channel, error) {
	a.r.rec.Log("AcceptB")
	var it accItem
	if a.r.sc.Opts.CancelCloses {
		// the real NetAccepter: whatever it reports by itself must be a closed-listener error, and only once the context has ended
		a.injected.Store(false)
		ch, err := a.net.Accept(ctx)
		if err != nil {
			kind := "other"
			if channel.IsErrClosing(err) {
				kind = "closing"
			}
			a.r.rec.Log("AcceptErr", "kind", kind, "net", true, "injected", a.injected.Load())
			return nil, err
		}
		it = accItem{ch: ch}
	} else if pe := a.pendErr.Swap(nil); pe != nil {
		it = accItem{err: *pe}
	} else {
		it = <-a.in
	}
	if it.thenErr != nil {
		a.pendErr.Store(&it.thenErr)
	}
	if it.err != nil {
		kind := "other"
		if channel.IsErrClosing(it.err) {
			kind = "closing"
		}
		a.r.rec.Log("AcceptErr", "kind", kind, "net", false, "injected", true)
		return nil, it.err
	}
	a.r.rec.Log("AcceptRet", "conn", it.ch.(*vh.VChan).Name)
	if a.cancelAfter.CompareAndSwap(true, false) {
		a.r.rec.Log("CtxCancel")
		a.r.cancel()
	}
	return it.ch, nil
}

type service struct {
	r    *runner
	tag  string
	gid  int64
	asg  chan bool // released by the scenario: result of Assigner
	hmap jrpc2.Assigner
}

type tagAssigner struct {
	svc *service
}

func (t tagAssigner) Assign(ctx context.Context, method string) jrpc2.Handler {
	if method != "h" {
		return nil
	}
	return func(ctx context.Context, req *jrpc2.Request) (any, error) {
		tag := vh.TagOf(json.RawMessage(req.ParamString()))
		conn, _, _ := strings.Cut(tag, ".")
		r := t.svc.r
		r.rec.Log("HStart", "svc", t.svc.tag, "conn", conn, "tag", tag)
		r.mu.Lock()
		g := make(chan struct{})
		r.hgate[conn] = append(r.hgate[conn], g)
		r.mu.Unlock()
		select {
		case <-g:
		case <-ctx.Done():
			r.rec.Log("HCancel", "svc", t.svc.tag, "tag", tag)
			<-g
		}
		r.rec.Log("HExit", "svc", t.svc.tag, "tag", tag)
		return tag, nil
	}
}

func (s *service) Assigner() (jrpc2.Assigner, error) {
	ok := <-s.asg
	s.r.rec.Log("AssignerRet", "svc", s.tag, "ok", ok)
	if !ok {
		// what comes with the error does not matter: nothing, an assigner that would work, a nil map in an interface
		err := errors.New("service initialisation failed")
		switch s.r.nfail.Add(1) % 3 {
		case 1:
			return tagAssigner{s}, err
		case 2:
			var m handler.Map
			return m, err
		}
		return nil, err
	}
	s.hmap = tagAssigner{s}
	return s.hmap, nil
}

func (s *service) Finish(a jrpc2.Assigner, st jrpc2.ServerStatus) {
	if s.r.sc.Seed%2 == 1 {
		// in every other scenario a Finish takes its time (it is parked until the run is drained): Loop has to wait for it
		s.r.sched.Point("svc.finish")
	}
	asg := "?"
	if ta, ok := a.(tagAssigner); ok {
		asg = ta.svc.tag
	}
	e := "nil"
	if st.Err != nil {
		e = "err"
	}
	s.r.rec.Log("Finish", "svc", s.tag, "asg", asg, "stopped", st.Stopped, "closed", st.Closed, "err", e)
}

type runner struct {
	t     *testing.T
	sc    *Scenario
	rec   *vh.Recorder
	sched *vh.Sched
	acc   *accepter

	nfail   atomic.Int64 // failed Assigner calls (their forms rotate)
	mu      sync.Mutex
	nconn   int
	conns   map[int]*vh.VChan // model conn index -> its service's real connection (once known)
	byName  map[string]*vh.VChan
	svcGate []chan string    // parked newService calls (each receives its tag)
	svcs    map[int]*service // model conn index -> service
	svcByG  map[int64]*service
	srvOf   map[*jrpc2.Server]*service
	chanOf  map[*service]*vh.VChan
	hgate   map[string][]chan struct{}
	ncall   int
	stats   map[string]int
}

func (r *runner) newService() server.Service {
	g := make(chan string)
	r.mu.Lock()
	r.svcGate = append(r.svcGate, g)
	r.mu.Unlock()
	tag := <-g
	s := &service{r: r, tag: tag, gid: goid(), asg: make(chan bool, 1)}
	r.mu.Lock()
	idx, _ := strconv.Atoi(strings.TrimPrefix(tag, "svc"))
	r.svcs[idx] = s
	r.svcByG[s.gid] = s
	r.mu.Unlock()
	r.rec.Log("NewService", "svc", tag)
	return s
}

func (r *runner) doStep(st Step) {
	s := r.sched
	switch st.A {
	case "accept":
		r.nconn++
		name := fmt.Sprintf("k%d", r.nconn)
		ch := vh.NewVChan(name, r.rec, false)
		if r.nconn%3 == 2 { // every third connection complains when it is closed (after closing): nothing else changes
			ch.FailClose(errors.New("transport: error while closing"))
		}
		r.byName[name] = ch
		if st.Kind == "cancelafter" { // the context ends after this connection has been handed over, before Loop asks for the next one
			r.acc.cancelAfter.Store(true)
		}
		it := accItem{ch: ch}
		if st.Kind == "thenfail" { // the listener fails right behind this connection: Loop learns of it before the connection's goroutine has run
			it.thenErr = r.acceptFailure()
		} else if st.Kind == "thenclosing" {
			it.thenErr = fmt.Errorf("listener: %w", channel.ErrClosed)
		}
		r.acc.in <- it
	case "acceptfail":
		if st.Kind == "closing" {
			r.acc.in <- accItem{err: fmt.Errorf("listener: %w", channel.ErrClosed)}
		} else {
			r.acc.in <- accItem{err: r.acceptFailure()}
		}
	case "ctxcancel":
		r.rec.Log("CtxCancel")
		r.cancel()
	case "newsvc":
		r.mu.Lock()
		if len(r.svcGate) > 0 {
			g := r.svcGate[0]
			r.svcGate = r.svcGate[1:]
			r.mu.Unlock()
			g <- fmt.Sprintf("svc%d", st.C)
		} else {
			r.mu.Unlock()
			r.stats["diverged"]++
		}
	case "assign":
		r.mu.Lock()
		sv := r.svcs[st.C]
		r.mu.Unlock()
		if sv != nil {
			select {
			case sv.asg <- st.OK:
			default:
			}
		} else {
			r.stats["diverged"]++
		}
	case "call":
		if ch := r.connOf(st.C); ch != nil {
			r.ncall++
			ch.Push([]byte(fmt.Sprintf(`{"jsonrpc":"2.0","id":%d,"method":"h","params":{"tag":"%s.%d"}}`, r.ncall, ch.Name, r.ncall)), nil)
		} else {
			r.stats["diverged"]++
		}
	case "hret":
		if ch := r.connOf(st.C); ch != nil {
			r.mu.Lock()
			if gs := r.hgate[ch.Name]; len(gs) > 0 {
				close(gs[0])
				r.hgate[ch.Name] = gs[1:]
			}
			r.mu.Unlock()
		}
	case "hretall":
		r.mu.Lock()
		for k, gs := range r.hgate {
			for _, g := range gs {
				close(g)
			}
			r.hgate[k] = nil
		}
		r.mu.Unlock()
	case "clientclose":
		if ch := r.connOf(st.C); ch != nil && !ch.PeerClosed() {
			r.rec.Log("PeerClose", "ch", ch.Name)
			ch.PeerClose()
		}
	case "connerr": // the connection's Recv fails with an error that is not end-of-stream
		if ch := r.connOf(st.C); ch != nil && !ch.PeerClosed() {
			r.rec.Log("ConnFail", "ch", ch.Name)
			ch.PushErr(nil, vh.ErrInjected, nil)
		}
	case "watcherstop":
		ok := s.Release(func(p *vh.Parked) bool {
			if p.Site != "srv.stop.lock" || len(p.Args) == 0 {
				return false
			}
			srv, _ := p.Args[0].(*jrpc2.Server)
			r.mu.Lock()
			defer r.mu.Unlock()
			sv := r.srvOf[srv]
			return sv != nil && sv == r.svcs[st.C]
		})
		if !ok {
			s.Diverged--
		}
	case "drain":
		s.Drain(10000)
	default:
		r.t.Fatalf("unknown step %q", st.A)
	}
	s.Settle()
	if len(s.Waiting) == 0 {
		r.rec.Log("Quiescent")
	}
}

func (r *runner) connOf(c int) *vh.VChan {
	r.mu.Lock()
	defer r.mu.Unlock()
	if sv := r.svcs[c]; sv != nil {
		return r.chanOf[sv]
	}
	return nil
}

var cancelFn context.CancelFunc

func (r *runner) cancel() { cancelFn() }

// Run executes one scenario and hands the trace to emit (inside the bubble).
func Run(t *testing.T, sc *Scenario, emit func([]vh.Event, map[string]int)) {
	stats := map[string]int{}
	vh.SetClosedSentinel(channel.ErrClosed)
	synctest.Test(t, func(t *testing.T) {
		rec := &vh.Recorder{}
		s := vh.NewSched(sc.Seed)
		r := &runner{t: t, sc: sc, rec: rec, sched: s, stats: stats, conns: map[int]*vh.VChan{}, byName: map[string]*vh.VChan{}, svcs: map[int]*service{},
			svcByG: map[int64]*service{}, srvOf: map[*jrpc2.Server]*service{}, chanOf: map[*service]*vh.VChan{}, hgate: map[string][]chan struct{}{}}
		r.acc = &accepter{r: r, in: make(chan accItem, 16)}
		r.acc.net = server.NetAccepter(&fakeListener{a: r.acc, closed: make(chan struct{})}, unwrapFraming)
		point := func(site string, args ...any) {
			if site != "srv.stop.lock" { // the inner servers run freely; only the stop watcher is a scheduling point
				return
			}
			s.Point(site, args...)
		}
		event := func(name string, args ...any) {
			if name == "srv.start" && len(args) >= 2 {
				srv, _ := args[0].(*jrpc2.Server)
				ch, _ := args[1].(*vh.VChan)
				r.mu.Lock()
				sv := r.svcByG[goid()]
				if sv != nil && ch != nil {
					r.srvOf[srv] = sv
					r.chanOf[sv] = ch
				}
				r.mu.Unlock()
				if sv != nil && ch != nil {
					rec.Log("ServerUp", "svc", sv.tag, "conn", ch.Name)
				}
			}
		}
		jrpc2.VerifInstall(point, event)
		defer jrpc2.VerifInstall(nil, nil)
		ctx, cancel := context.WithCancel(context.Background())
		cancelFn = cancel
		defer cancel()
		loopDone := make(chan struct{})
		go func() {
			err := server.Loop(ctx, r.acc, r.newService, &server.LoopOptions{ServerOptions: &jrpc2.ServerOptions{Concurrency: 2}})
			e := "nil"
			if err != nil {
				e = "err"
			}
			rec.Log("LoopRet", "err", e, "same", err == nil || errors.Is(err, errAccept))
			close(loopDone)
		}()
		s.Settle()
		for _, st := range sc.Steps {
			r.doStep(st)
		}
		// run to completion: every pending initialisation proceeds, handlers return, clients close, the accepter fails
		rec.Log("Teardown")
		for round := 0; round < 6; round++ {
			r.mu.Lock()
			pend := len(r.svcGate)
			r.mu.Unlock()
			for i := 0; i < pend; i++ {
				r.doStep(Step{A: "newsvc", C: 100 + round*10 + i})
			}
			r.mu.Lock()
			var idx []int
			for k := range r.svcs {
				idx = append(idx, k)
			}
			r.mu.Unlock()
			for _, k := range idx {
				r.doStep(Step{A: "assign", C: k, OK: true})
			}
			r.doStep(Step{A: "hretall"})
			r.doStep(Step{A: "drain"})
		}
		for _, ch := range r.byName {
			if !ch.PeerClosed() {
				rec.Log("PeerClose", "ch", ch.Name)
				ch.PeerClose()
			}
		}
		r.doStep(Step{A: "hretall"})
		r.doStep(Step{A: "drain"})
		select {
		case <-loopDone:
		default:
			r.doStep(Step{A: "acceptfail", Kind: "closing"})
			r.doStep(Step{A: "hretall"})
			r.doStep(Step{A: "drain"})
		}
		select {
		case <-loopDone:
		default:
			rec.Log("Deadlock", "what", "Loop did not return after the accepter failed and every client closed")
		}
		rec.Log("Final")
		cancel()
		s.Drain(1000)
		synctest.Wait()
		if n := leaked(); n > 0 {
			rec.Log("Leak", "n", n)
			stats["leak"] = n
			if os.Getenv("VERIF_DEBUG") != "" {
				fmt.Fprintln(os.Stderr, vh.BubbleGoroutines())
			}
		}
		stats["releases"] = s.Releases
		stats["diverged"] += s.Diverged
		emit(rec.Events(), stats)
	})
}

func leaked() int {
	n := 0
	for _, blk := range strings.Split(vh.BubbleGoroutines(), "\n\n") {
		first, _, _ := strings.Cut(blk, "\n")
		if strings.Contains(first, "synctest bubble") && !strings.Contains(first, "running") &&
			!strings.Contains(blk, "internal/synctest.Run(") && !strings.Contains(blk, "testingSynctestTest(") {
			n++
		}
	}
	return n
}

// LoadScenarios reads ndjson scenarios.
func LoadScenarios(path string) ([]*Scenario, error) {
	b, err := os.ReadFile(path)
	if err != nil {
		return nil, err
	}
	var out []*Scenario
	for _, line := range strings.Split(string(b), "\n") {
		if strings.TrimSpace(line) == "" {
			continue
		}
		sc := new(Scenario)
		if err := json.Unmarshal([]byte(line), sc); err != nil {
			return nil, fmt.Errorf("%v in %q", err, line)
		}
		out = append(out, sc)
	}
	return out, nil
}
